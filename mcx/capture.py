"""Capture of generated inputs: lets one property's model generator feed another property's oracle.

While `ACTIVE`, the two hand-off points where the generators of C01-C15 give their input to the library
(`elfgen.Img.encode()` for ELF images, `dwarfgen.make_dwarfinfo()` for bare DWARF sections) raise
`Captured` instead of returning, so the generator's own observation phase never runs.  `Captured` derives
from BaseException: `core.guarded` (which turns library exceptions into observations) lets it through.
"""
ACTIVE = False


class Captured(BaseException):
    def __init__(self, kind, payload):
        super().__init__(kind)
        self.kind = kind            # 'elf' | 'dwarf'
        self.payload = payload


def grab(fn, *a, **kw):
    """Run a generator-and-check function up to its hand-off point. -> Captured or None (no hand-off reached)"""
    global ACTIVE
    ACTIVE = True
    try:
        fn(*a, **kw)
    except Captured as c:
        return c
    finally:
        ACTIVE = False
    return None
