"""Evidence writer: aggregates measured coverage per property and validates it
against the essential rules of /root/.vp/EVIDENCE.schema.json before writing."""
import json
import os

ROOT = os.path.dirname(os.path.dirname(os.path.abspath(__file__)))
SCHEMA = '/root/.vp/EVIDENCE.schema.json'


def build(prop_id, level, tier, seed, aggs, wall_s, violations, known_hits, assumptions, extra=None):
    ev = sum(a['evaluations'] for a in aggs)
    states = sum(len(a['states']) + a['n_states'] for a in aggs)
    nontriv = sum(len(a['nontrivial']) + a['n_nontrivial'] for a in aggs)
    outcomes = sum(len(a['outcomes']) + a['n_outcomes'] for a in aggs)
    trans = sum((a['decisions'] if a['kind'] == 'choice' else a['evaluations']) for a in aggs)
    samples = []
    for a in aggs:
        for s in a['samples'][:2]:
            samples.append({'space': a['name'], **(s if isinstance(s, dict) else {'case': s})})
    spaces = []
    caps = []
    for a in aggs:
        d = {'space': a['name'], 'engine': 'E1 choice-point explorer' if a['kind'] == 'choice' else 'E3 finite enumerator',
             'executions': a['evaluations'], 'distinct_inputs': len(a['states']) + a['n_states'],
             'distinct_nontrivial': len(a['nontrivial']) + a['n_nontrivial'],
             'distinct_outcomes': len(a['outcomes']) + a['n_outcomes'], 'failing_executions': a['nfail'],
             'outside_envelope': a['outside'], 'rule': a['rule']}
        if a['kind'] == 'choice':
            d['deviation_bound'] = a['k']
            d['deviation_bound_completed'] = a['k'] if not a['partial'] else max(-1, a['k'] - 1)
            d['executions_by_deviations'] = {str(k): v for k, v in sorted(a['by_dev'].items())}
            d['choice_points'] = len(a['points'])
            d['alternatives_total'] = sum(a['points'].values())
            d['choice_decisions'] = a['decisions']
            d['oracle_comparisons'] = a['checks']
            if a['partial']:
                caps.append('%s: time cap hit inside deviation level %d' % (a['name'], a['k']))
        spaces.append(d)
    cov = {
        'states': states,
        'transitions': trans,
        'traces_validated_against_impl': ev,
        'evaluations': ev,
        'distinct_nontrivial': nontriv,
        'distinct_outcomes': outcomes,
        'exhaustive': not caps,
        'caps_hit': caps,
        'rule': ('states = distinct generated inputs (blake2b of the bytes fed to the library); transitions = choice '
                 'decisions taken across all executions (bulk spaces: one per case); every execution is one trace of '
                 'the reference model replayed against the implementation; non-trivial = the compared observation '
                 'was non-empty by the space rule.'),
        'samples': samples or [{'note': 'no sample recorded'}],
        'spaces': spaces,
        'known_findings_hit': known_hits,
    }
    if extra:
        cov.update(extra)
    doc = {'property_id': prop_id, 'tier': tier, 'seed': seed, 'level': level, 'coverage': cov,
           'assumptions': assumptions, 'wall_s': round(wall_s, 2), 'violations': violations}
    return doc


def validate(doc):
    """Full jsonschema validation when the module is importable, else the essential rules."""
    try:
        import jsonschema  # not in /venv by default; present if installed from the wheelhouse
        jsonschema.validate(doc, json.load(open(SCHEMA)))
        return
    except ImportError:
        pass
    except FileNotFoundError:
        pass
    for k in ('property_id', 'tier', 'seed', 'level', 'coverage', 'wall_s'):
        assert k in doc, 'evidence lacks ' + k
    assert doc['tier'] in ('quick', 'thorough')
    assert isinstance(doc['seed'], int)
    c = doc['coverage']
    assert isinstance(c['samples'], list) and c['samples']
    assert c['evaluations'] >= 1 and c['distinct_nontrivial'] >= 2, 'evidence too thin: %r' % (
        (c['evaluations'], c['distinct_nontrivial']),)
    if doc['level'] == 'model_checking':
        assert c['states'] >= 1 and c['transitions'] >= 1 and c['traces_validated_against_impl'] >= 0


def write(doc):
    validate(doc)
    path = os.path.join(os.environ.get('VERIF_EVIDENCE_DIR') or os.path.join(ROOT, 'evidence'), doc['property_id'] + '.json')
    os.makedirs(os.path.dirname(path), exist_ok=True)
    tmp = path + '.tmp'
    with open(tmp, 'w') as f:
        json.dump(doc, f, indent=1, sort_keys=False, default=str)
        f.write('\n')
    os.replace(tmp, path)
    return path
