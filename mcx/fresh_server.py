"""Pristine-process oracle for C10: every requested observation is computed in its own forked
child of an interpreter that has never called into the library, so that state the library keeps
outside the object under test (class attributes, module globals) cannot leak into the oracle.

stdin: pickle (repo path, data bytes, foreign bytes, [requests]); stdout: pickle [repr observations].
request = ('event', ev) | ('iter', kind, arg)."""
import os
import pickle
import signal
import sys


def main():
    repo, data, foreign, reqs = pickle.load(sys.stdin.buffer)
    sys.path.insert(0, repo)
    from mcx.props import c10
    import elftools.elf.elffile     # noqa: F401 - importing creates no state beyond module initialisation; nothing is called before the fork
    import elftools.dwarf.dwarfinfo  # noqa: F401
    out = [None] * len(reqs)
    BATCH = 16
    for b0 in range(0, len(reqs), BATCH):
        running = []
        for qi in range(b0, min(b0 + BATCH, len(reqs))):
            req = reqs[qi]
            r, wfd = os.pipe()
            pid = os.fork()
            if pid == 0:
                os.close(r)
                signal.alarm(15)        # a query on a freshly opened object that runs longer is reported as 'hang-or-crash' (the default action of SIGALRM ends the child)
                try:
                    c10._DATA['current'] = data
                    c10._FOREIGN['data'] = foreign
                    if req[0] == 'event':
                        w = c10.World(data)
                        try:
                            res = repr(c10.apply(w, req[1]))
                        except Exception as e:      # noqa: BLE001
                            res = repr(('raises', type(e).__name__))
                    else:
                        w = c10.World(data)
                        try:
                            res = [repr(('item', x)) for x in c10.ITER_KINDS[req[1]](w, req[2])]
                        except Exception as e:      # noqa: BLE001
                            res = [repr(('raises', type(e).__name__))]
                    os.write(wfd, pickle.dumps(res))
                finally:
                    os._exit(0)
            os.close(wfd)
            running.append((qi, pid, r))
        for qi, pid, r in running:
            buf = b''
            while True:
                chunk = os.read(r, 1 << 16)
                if not chunk:
                    break
                buf += chunk
            os.close(r)
            os.waitpid(pid, 0)
            out[qi] = pickle.loads(buf) if buf else repr(('hang-or-crash',))
    sys.stdout.buffer.write(pickle.dumps(out))


if __name__ == '__main__':
    main()
