"""CLI: ./check <ID> [--tier quick|thorough] [--replay file] | ./check --selftest | ./check --list"""
import base64
import hashlib
import importlib
import json
import os
import sys
import time

ROOT = os.path.dirname(os.path.dirname(os.path.abspath(__file__)))
REPO = os.environ.get('VERIF_REPO', '/repo')
if sys.path[0] != REPO:
    sys.path.insert(0, REPO)
if ROOT not in sys.path:
    sys.path.insert(1, ROOT)

from mcx import core, evidence, findings  # noqa: E402

ALL = ['C%02d' % i for i in range(1, 21)]


def load(pid):
    return importlib.import_module('mcx.props.' + pid.lower())


def sig_of(space, labels, path):
    h = hashlib.blake2b(('%s|%s|%s' % (space, '|'.join(sorted(labels)), path)).encode(), digest_size=6)
    return h.hexdigest()


def write_replay(pid, tier, seed, space, kind, choices, labels, desc, fail, case):
    d = os.path.join(os.environ.get('VERIF_REPLAY_DIR') or os.path.join(ROOT, 'replays'), pid)
    os.makedirs(d, exist_ok=True)
    sig = sig_of(space, labels, fail[0])
    path = os.path.join(d, sig + '.json')
    doc = {'property': pid, 'tier': tier, 'seed': seed, 'space': space, 'kind': kind,
           'choices': choices, 'labels': labels, 'desc': desc,
           'first_failing_observable': fail[0], 'expected': core._short(fail[1], 2000),
           'observed': core._short(fail[2], 2000)}
    if case is not None:
        inp = case.input
        if isinstance(inp, str):
            inp = inp.encode('utf-8', 'surrogatepass')
        if isinstance(inp, (bytes, bytearray)) and len(inp) <= 1 << 20:
            doc['input_b64'] = base64.b64encode(bytes(inp)).decode()
        if case.sample is not None:
            doc['case'] = case.sample
        doc['all_failing_observables'] = [[f[0], core._short(f[1], 400), core._short(f[2], 400)] for f in case.fails[:20]]
    with open(path, 'w') as f:
        json.dump(doc, f, indent=1, default=str)
        f.write('\n')
    return path


def process_failures(pid, tier, seed, spaces, aggs):
    """Minimise, de-duplicate by signature, separate known findings from violations."""
    known = findings.load(pid)
    violations = {}     # sig -> (replay path, text)
    known_hits = {}
    bulk_seen = {}
    t_min = time.time()
    nmin = 0
    import re as _re
    for sp, a in zip(spaces, aggs):
        todo = a['fails']
        if sp.kind == 'choice':
            # round-robin over buckets of (first failing observable with indices blanked) so that one noisy
            # root cause cannot starve the others of the bounded minimisation budget (60 runs / 60 s)
            buckets = {}
            seen_pre = set()
            for f in a['fails']:
                pre = (tuple(sorted(f[1])), f[2])
                if pre in seen_pre:
                    continue
                seen_pre.add(pre)
                # a listed finding is recognised on the raw execution (its labels are a superset of the minimal ones) BEFORE bucketing and minimisation,
                # so known findings can never starve a new violation of the reporting budget
                kf0 = findings.match(known, sp.name, f[1], f[2], f[4])
                if kf0 is not None:
                    sig0 = 'kf:' + kf0['what'][:200]
                    if sig0 not in known_hits:
                        known_hits[sig0] = (kf0, None, '%s: %s at %s' % (sp.name, ', '.join(f[1]), f[2]))
                    continue
                key = _re.sub(r'\d+', 'N', f[2]) + '|' + _re.sub(r'[0-9a-fx]{3,}', 'N', str(f[4]))[:40]
                buckets.setdefault(key, []).append(f)
            todo = []
            rnd = 0
            while any(len(b) > rnd for b in buckets.values()) and rnd < 4:
                for b in buckets.values():
                    if len(b) > rnd:
                        todo.append(b[rnd])
                rnd += 1
        for f in todo:
            if len(violations) >= core.MAX_SIGNATURES:
                break
            if sp.kind == 'choice':
                choices, labels, path, exp, obs = f
                if nmin >= 60 or time.time() - t_min > 60:
                    m = 'unminimised'       # budget spent: still reported, with the labels of the raw execution
                else:
                    nmin += 1
                    m = core.minimise(sp, choices)
                if m == 'unminimised':
                    fail = (path, exp, obs)
                    case = None
                elif m is None:
                    # does not reproduce alone: order-dependent (library state outside the object)
                    labels = list(labels) + ['order-dependent']
                    fail = (path, exp, obs)
                    case = None
                else:
                    choices, labels, fail, case = m
                desc = None
            else:
                desc, path, exp, obs = f
                bkey = (sp.name, _re.sub(r'\d+', 'N', path))
                bulk_seen[bkey] = bulk_seen.get(bkey, 0) + 1
                if bulk_seen[bkey] > 3 and not getattr(sp, 'report_all', False):
                    continue
                labels = [str(desc)]
                choices = None
                fail = (path, exp, obs)
                case = None
            sig = sig_of(sp.name, labels, fail[0])
            if sig in violations or sig in known_hits:
                continue
            kf = findings.match(known, sp.name, labels, fail[0], fail[2])
            rp = write_replay(pid, tier, seed, sp.name, sp.kind, choices, labels, desc, fail, case)
            text = '%s: %s at %s expected %s observed %s' % (
                sp.name, ', '.join(labels) or '(all defaults)', fail[0],
                core._short(fail[1], 120), core._short(fail[2], 120))
            if kf is not None:
                known_hits[sig] = (kf, rp, text)
            else:
                violations[sig] = (rp, text)
    return violations, known_hits


def run_custom(pid, mod, tier, seed):
    t0 = time.time()
    res = mod.custom_check(tier, seed)
    known = findings.load(pid)
    violations, known_hits = {}, {}
    for f in res['failures']:
        sig = sig_of('custom', f['labels'], f['path'])
        kf = findings.match(known, 'custom', f['labels'], f['path'])
        d = os.path.join(os.environ.get('VERIF_REPLAY_DIR') or os.path.join(ROOT, 'replays'), pid)
        os.makedirs(d, exist_ok=True)
        rp = os.path.join(d, sig + '.json')
        with open(rp, 'w') as fh:
            json.dump({'property': pid, 'tier': tier, 'seed': seed, 'kind': 'custom', 'labels': f['labels'], 'first_failing_observable': f['path'],
                       'expected': f['expected'], 'observed': f['observed'], 'doc': f['doc']}, fh, indent=1, default=str)
        text = '%s at %s expected %s observed %s' % (' -> '.join(f['labels']), f['path'], core._short(f['expected'], 140), core._short(f['observed'], 140))
        (known_hits if kf else violations)[sig] = ((kf, rp, text) if kf else (rp, text))
    doc = evidence.build(pid, mod.LEVEL, tier, seed, res['aggs'], time.time() - t0, len(violations), sorted({k[0]['what'] for k in known_hits.values()}),
                         getattr(mod, 'ASSUMPTIONS', []), res.get('extra'))
    evidence.write(doc)
    for a in res['aggs']:
        print('  space %-28s transitions=%-9d states=%-9d failing=%d' % (a['name'], a['evaluations'], a['n_states'], a['nfail']))
    for kf, rp, text in known_hits.values():
        print('KNOWN-FINDING: property=%s %s' % (pid, kf['what']))
    for rp, text in violations.values():
        print('  ' + text)
        print('VIOLATION property=%s replay=%s' % (pid, rp))
    print('%s %s tier=%s seed=%d evaluations=%d wall=%.1fs' % (pid, 'FAIL' if violations else 'ok', tier, seed, doc['coverage']['evaluations'], time.time() - t0))
    return 1 if violations else 0


def run_check(pid, tier, seed):
    t0 = time.time()
    mod = load(pid)
    if hasattr(mod, 'custom_check'):
        return run_custom(pid, mod, tier, seed)
    core_seed = seed
    spaces = mod.spaces(tier, core_seed)
    aggs = core.run_spaces(spaces)
    errs = [e for a in aggs for e in a['errors']]
    if errs:
        for e in errs[:5]:
            sys.stderr.write(e + '\n')
        sys.stderr.write('HARNESS-ERROR property=%s (%d internal errors)\n' % (pid, len(errs)))
        return 2
    violations, known_hits = process_failures(pid, tier, seed, spaces, aggs)
    extra = mod.extra_evidence(tier, seed, aggs) if hasattr(mod, 'extra_evidence') else None
    doc = evidence.build(pid, mod.LEVEL, tier, seed, aggs, time.time() - t0, len(violations),
                         sorted({k[0]['what'] for k in known_hits.values()}),
                         getattr(mod, 'ASSUMPTIONS', []), extra)
    evidence.write(doc)
    for a in aggs:
        print('  space %-28s exec=%-9d inputs=%-9d nontrivial=%-9d outcomes=%-8d failing=%d%s' % (
            a['name'], a['evaluations'], len(a['states']) + a['n_states'],
            len(a['nontrivial']) + a['n_nontrivial'], len(a['outcomes']) + a['n_outcomes'], a['nfail'],
            '  PARTIAL(time cap)' if a['partial'] else ''))
    seen_known = set()
    for kf, rp, text in known_hits.values():
        if id(kf) in seen_known:
            continue
        seen_known.add(id(kf))
        print('KNOWN-FINDING: property=%s %s' % (pid, kf['what']))
    for rp, text in violations.values():
        print('  ' + text)
        print('VIOLATION property=%s replay=%s' % (pid, rp))
    print('%s %s tier=%s seed=%d evaluations=%d wall=%.1fs' % (
        pid, 'FAIL' if violations else 'ok', tier, seed, doc['coverage']['evaluations'], time.time() - t0))
    return 1 if violations else 0


def run_replay(pid, path):
    doc = json.load(open(path))
    mod = load(pid)
    if doc.get('kind') == 'custom':
        fails = mod.custom_replay(doc['doc'])
        for f in fails[:10]:
            print('  %s expected %s observed %s' % (f[0], core._short(f[1], 200), core._short(f[2], 200)))
        if fails:
            print('VIOLATION property=%s replay=%s' % (pid, path))
            return 1
        print('replay: oracle holds')
        return 0
    spaces = mod.spaces(doc.get('tier', 'quick'), doc.get('seed', 0))
    sp = [s for s in spaces if s.name == doc['space']]
    if not sp:
        sys.stderr.write('space %s not found\n' % doc['space'])
        return 2
    sp = sp[0]
    if sp.kind == 'choice':
        ch = core.Chooser(tuple(doc['choices']))
        case = sp.run(ch)
        fails = case.fails
    else:
        fails = sp.replay(doc['desc'])
    if fails:
        for f in fails[:10]:
            print('  %s expected %s observed %s' % (f[0], core._short(f[1], 200), core._short(f[2], 200)))
        print('VIOLATION property=%s replay=%s' % (pid, path))
        return 1
    print('replay: oracle holds')
    return 0


def selftest():
    ok = True
    for pid in ALL:
        try:
            mod = load(pid)
        except ModuleNotFoundError:
            continue
        if hasattr(mod, 'custom_check'):
            print('selftest: %s imports (custom engine)' % pid)
            continue
        for tier in ('quick', 'thorough'):
            sps = mod.spaces(tier, 0)
            assert sps, pid
        print('selftest: %s imports, %d quick spaces' % (pid, len(mod.spaces('quick', 0))))
        # determinism: the default execution of every choice space twice gives identical bytes
        for sp in mod.spaces('quick', 0):
            if sp.kind == 'choice':
                a = sp.run(core.Chooser(()))
                b = sp.run(core.Chooser(()))
                if core.digest(a.input) != core.digest(b.input) or core.digest(a.outcome) != core.digest(b.outcome):
                    print('selftest: NONDETERMINISM in %s/%s' % (pid, sp.name))
                    ok = False
    man = json.load(open(os.path.join(ROOT, 'MANIFEST.json')))
    assert man['version'] == 1
    json.load(open(os.path.join(ROOT, 'known_findings.json')))
    print('selftest:', 'ok' if ok else 'FAILED')
    return 0 if ok else 2


def main(argv):
    if not argv or argv[0] in ('-h', '--help'):
        print(__doc__)
        return 2
    if argv[0] == '--selftest':
        return selftest()
    if argv[0] == '--list':
        print(' '.join(ALL))
        return 0
    pid = argv[0].upper()
    tier = os.environ.get('VERIF_TIER', 'quick')
    replay = None
    i = 1
    while i < len(argv):
        if argv[i] == '--tier':
            tier = argv[i + 1]
            i += 2
        elif argv[i] == '--replay':
            replay = argv[i + 1]
            i += 2
        else:
            sys.stderr.write('unknown argument %s\n' % argv[i])
            return 2
    seed = int(os.environ.get('VERIF_SEED', '0') or 0)
    if replay:
        return run_replay(pid, replay)
    try:
        return run_check(pid, tier, seed)
    except core.HarnessError as e:
        sys.stderr.write('HARNESS-ERROR property=%s %s\n' % (pid, e))
        return 2


if __name__ == '__main__':
    sys.exit(main(sys.argv[1:]))
