"""Synthesized DWARF payloads (sections dict + metadata) shared by C10, C11 and C18."""
import struct

from mcx import dwarfgen as dg
from mcx.dwarfgen import F, TAG, AT, UT, Abbrev, Die, Unit, DP, null
from mcx.ref import lineprog as LP, leb
from mcx.props import c06


class _ST:
    def __init__(self, ctx):
        self.ctx = ctx

    def add(self, s, table):
        return self.ctx.add_str(s, table, share=False)


def make(kind='m1', le=True, fmt=32, addr=8):
    """kind: 'm0' tiny, 'm1' everything-small, 'v4', 'v5', 'mixed'."""
    dp4 = DP(le, fmt, addr, 4)
    dp5 = DP(le, fmt, addr, 5)
    lineA_len = None
    # ---- line programs first (their offsets are needed by DW_AT_stmt_list)
    hA = LP.Header(version=4, dirs=(b'/src',), files=((b'a.c', 1, 0, 0), (b'a.h', 1, 0, 0)))
    progA = b'\x00' + leb.uleb(1 + addr) + b'\x02' + dp4.address(0x401000) + b'\x05\x03' + b'\x14' + b'\x02\x04' + b'\x0a' + b'\x21' + b'\x00\x02\x04\x07' + b'\x5b' + b'\x02\x08' + b'\x00\x0a\x03gen.c\x00\x01\x00\x00' + b'\x00\x01\x01'       # ... DW_LNE_define_file (it extends the header's file table while decoding)
    hB = LP.Header(version=5, v5_dirs=[{'path': b'/src'}, {'path': b'inc'}], v5_files=[{'path': b'b.c', 'directory_index': 0}, {'path': b'b.h', 'directory_index': 1}],
                   dir_format=(('path', 'line_strp'),), file_format=(('path', 'line_strp'), ('directory_index', 'udata')))
    progB = b'\x00' + leb.uleb(1 + addr) + b'\x02' + dp5.address(0x402000) + b'\x03\x09' + b'\x01' + b'\x2f' + b'\x06' + b'\x3d' + b'\x02\x10' + b'\x00\x01\x01'
    # build .debug_info with placeholders, then line section (string tables shared through the assembly ctx)
    a_cu = Abbrev(1, TAG['compile_unit'], True, [(AT['producer'], F['strp'], None), (AT['name'], F['string'], None), (AT['stmt_list'], F['sec_offset'], None),
                                                 (AT['low_pc'], F['addr'], None)])
    a_sub = Abbrev(2, TAG['subprogram'], True, [(AT['name'], F['string'], None), (AT['sibling'], F['ref4'], None), (AT['external'], F['flag_present'], None)])
    a_var = Abbrev(3, TAG['variable'], False, [(AT['name'], F['strp'], None), (AT['type'], F['ref4'], None), (AT['location'], F['exprloc'], None)])
    a_base = Abbrev(4, TAG['base_type'], False, [(AT['name'], F['string'], None), (AT['byte_size'], F['data1'], None), (AT['encoding'], F['data1'], None)])
    a_par = Abbrev(5, TAG['formal_parameter'], False, [(AT['name'], F['string'], None), (AT['type'], F['ref4'], None)])
    a_cu5 = Abbrev(6, TAG['compile_unit'], True, [(AT['name'], F['line_strp'], None), (AT['stmt_list'], F['sec_offset'], None), (AT['language'], F['data2'], None)])
    a_xref = Abbrev(7, TAG['variable'], False, [(AT['name'], F['string'], None), (AT['type'], F['ref_addr'], None), (AT['specification'], F['ref_sig8'], None)])
    a_tu = Abbrev(8, TAG['type_unit'], True, [(AT['language'], F['data1'], None)])
    a_struct = Abbrev(9, TAG['structure_type'], True, [(AT['name'], F['string'], None), (AT['byte_size'], F['udata'], None)])
    a_mem = Abbrev(10, TAG['member'], False, [(AT['name'], F['string'], None), (AT['data_member_location'], F['data1'], None)])
    SIG = 0x1122334455667788
    units = []
    if kind == 'm0':
        cu0 = Die(a_cu, [b'mcx m0', b'a.c', 0, 0x401000],
                  [Die(a_sub, [b'f', ('ref', 'm0_int'), None], [Die(a_par, [b'p', ('ref', 'm0_int')], label='m0_p'), null()], label='m0_f'),
                   Die(a_base, [b'int', 4, 5], label='m0_int'), null()], label='m0_root0')
        cu1 = Die(a_cu5, [b'b.c', ('lineB',), 0x0c],
                  [Die(a_xref, [b'g', ('ref', 'm0_int'), SIG], label='m0_g'), Die(a_base, [b'char', 1, 6], label='m0_char'),
                   Die(a_base, [b'long', 8, 5], label='m0_long'), null()], label='m0_root1')
        units = [Unit(dp4, cu0, abbrev_key='s'), Unit(dp5, cu1, abbrev_key='t')]
    else:
        cu0 = Die(a_cu, [b'mcx m1 producer', b'a.c', 0, 0x401000],
                  [Die(a_sub, [b'main', ('ref', 'int'), None],
                       [Die(a_par, [b'argc', ('ref', 'int')], label='argc'), Die(a_var, [b'local', ('ref', 'int'), b'\x91\x6c'], label='local'), null()], label='main'),
                   Die(a_base, [b'int', 4, 5], label='int'),
                   Die(a_var, [b'global', ('ref', 'int'), b'\x03' + dp4.address(0x404000)], label='global'), null()], label='root0')
        cu1 = Die(a_cu5, [b'b.c', ('lineB',), 0x0c],
                  [Die(a_xref, [b'xref', ('ref', 'int'), SIG], label='xref'), Die(a_base, [b'char', 1, 6], label='char'), null()], label='root1')
        tu = Die(a_tu, [0x0c], [Die(a_struct, [b'S', 8], [Die(a_mem, [b'a', 0], label='mem_a'), Die(a_mem, [b'b', 4], label='mem_b'), null()], label='struct_S'), null()],
                 label='tu_root')
        units = [Unit(dp4, cu0, abbrev_key='s'), Unit(dp5, cu1, abbrev_key='t')]
        if kind in ('m1', 'mixed', 'v4'):
            units.append(Unit(dp4, tu, abbrev_key='s', in_types=True, type_die_label='struct_S', type_signature=SIG))
        if kind == 'm1':
            # two more type units: another signature, and an unfolded DUPLICATE of the first one (A, B, A): enumeration must not be served from a by-signature map
            tu_b = Die(a_tu, [0x0c], [Die(a_struct, [b'T', 16], [Die(a_mem, [b'x', 0], label='mem_x'), null()], label='struct_T'), null()], label='tu_root_b')
            tu_a2 = Die(a_tu, [0x0c], [Die(a_struct, [b'S', 8], [Die(a_mem, [b'a', 0], label='mem_a2'), Die(a_mem, [b'b', 4], label='mem_b2'), null()], label='struct_S2'), null()],
                        label='tu_root_a2')
            units.append(Unit(dp4, tu_b, abbrev_key='s', in_types=True, type_die_label='struct_T', type_signature=SIG ^ 0x0101010101010101))
            units.append(Unit(dp4, tu_a2, abbrev_key='s', in_types=True, type_die_label='struct_S2', type_signature=SIG))
        if kind == 'v4':
            units = [units[0], units[2]]
        elif kind == 'v5':
            units = [units[1]]
    asm = dg.Assembly(units, le=le)
    st = _ST(asm.ctx)
    unitA, _ = LP.encode(hA, progA, dp4, st)
    unitB, _ = LP.encode(hB, progB, dp5, st)
    line = unitA + unitB
    for u in units:
        for d in dg._iter(u.root):
            for i, v in enumerate(d.values):
                if v == ('lineB',):
                    d.values[i] = len(unitA)
    # v5 units referencing a v4-only label
    if kind == 'v5':
        for d in dg._iter(units[0].root):
            for i, v in enumerate(d.values):
                if v == ('ref', 'int'):
                    d.values[i] = ('ref', 'char')
    secs = asm.assemble()
    out = {k: secs[k] for k in ('.debug_info', '.debug_abbrev', '.debug_str') if secs.get(k)}
    if secs.get('.debug_line_str') and len(secs['.debug_line_str']) > 1:
        out['.debug_line_str'] = secs['.debug_line_str']
    if '.debug_types' in secs:
        out['.debug_types'] = secs['.debug_types']
    out['.debug_line'] = line
    # ---- frames: .debug_frame = [FDE, CIE, FDE] and .eh_frame = [CIE, FDE, ZERO]
    dpf = DP(le, 32, addr, 4)
    if kind == 'm0':
        df, _ = c06.build_debug_frame(dpf, {'order': 'CF'}, c06.PROLOGUES['default'], [[('advance_loc', 4), ('def_cfa_offset', 16)], []])
    else:
        df, _ = c06.build_debug_frame(dpf, {'order': 'FC', 'version': 3}, c06.PROLOGUES['default'], [[('advance_loc', 4), ('def_cfa_offset', 16), ('offset', 6, 2)], []])
        # append a second FDE pointing at the CIE (which sits at the offset recorded in the first FDE)
        cie_off = struct.unpack(dpf.o + 'I', df[4:8])[0]
        body = dpf.off(cie_off) + dpf.address(0x401100) + dpf.address(0x20) + bytes([0x42, 0x0e, 0x20])
        df += dpf.initial_length(len(body)) + body
        eh, _ = c06.build_eh_frame(dpf, {'aug': 'zR', 'fde_enc': 0x1b}, c06.PROLOGUES['default'], [[('advance_loc', 1), ('def_cfa_offset', 32)]], 0x400800)
        out['.eh_frame'] = eh
    out['.debug_frame'] = df
    # ---- aranges / pubnames
    o = '<' if le else '>'
    infos = [u for u in units if not u.in_types]
    ar = b''
    for i, u in enumerate(infos):
        A = 'Q' if addr == 8 else 'I'
        hdr = struct.pack(o + 'HIBB', 2, u.offset, addr, 0)
        pad = (-(4 + len(hdr))) % (2 * addr)
        body = hdr + b'\0' * pad + struct.pack(o + A + A, 0x401000 + 0x1000 * i, 0x100) + struct.pack(o + A + A, 0, 0)
        ar += struct.pack(o + 'I', len(body)) + body
    out['.debug_aranges'] = ar
    pn = b''
    labels = asm.ctx.labels
    for u in infos:
        body = struct.pack(o + 'HII', 2, u.offset, u.size)
        for d in u.dies:
            if d.abbrev is not None and d.abbrev.tag in (TAG['subprogram'], TAG['variable']) and d.parent is u.root:
                nm = d.attrs[0][3] if isinstance(d.attrs[0][3], bytes) else b'anon'
                body += struct.pack(o + 'I', d.offset - u.offset) + nm + b'\0'
        body += struct.pack(o + 'I', 0)
        pn += struct.pack(o + 'I', len(body)) + body
    out['.debug_pubnames'] = pn
    meta = dict(units=units, cu_offsets=[u.offset for u in infos], die_offsets=[(u.offset, d.offset) for u in infos for d in u.dies if d.abbrev is not None],
                sig=SIG if any(u.in_types for u in units) else None, line_offsets=[0, len(unitA)], labels=labels, addresses={'.eh_frame': 0x400800})
    return out, meta
