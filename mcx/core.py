"""E1/E3 engines: deviation-bounded choice-point explorer and bulk enumerator.

Everything here is independent of elftools.  A property module supplies
`spaces(tier, seed)` returning ChoiceSpace / BulkSpace objects; this module
enumerates them exhaustively within their stated bounds, in 16 long-lived
worker processes, and returns measured coverage plus minimised failures.
"""
import hashlib
import multiprocessing as mp
import os
import sys
import time
import traceback

NPROC = int(os.environ.get('VERIF_JOBS', '0')) or min(16, os.cpu_count() or 1)
MAX_FAILS_PER_TASK = 12
MAX_SIGNATURES = 25


class HarnessError(Exception):
    """Replay divergence or an internal error of a builder / reference model."""


class Chooser:
    """Replays `prefix`, then answers the default (index 0) at every later point."""
    __slots__ = ('prefix', 'trace', 'labels')

    def __init__(self, prefix=()):
        self.prefix = prefix
        self.trace = []          # (name, n_alternatives, chosen, costed)
        self.labels = []         # label of every non-default decision

    def _next(self, name, alts, costed):
        i = len(self.trace)
        c = self.prefix[i] if i < len(self.prefix) else 0
        n = len(alts)
        if c >= n:
            raise HarnessError('replay divergence at %s: index %d of %d' % (name, c, n))
        self.trace.append((name, n, c, costed))
        if c:
            self.labels.append('%s=%s' % (name, _label(alts[c])))
        return alts[c]

    def pick(self, name, alts):
        """Costed choice: a non-default answer is one deviation."""
        return self._next(name, alts, True)

    def free(self, name, alts):
        """Free choice: always fully crossed, costs nothing."""
        return self._next(name, alts, False)

    def choices(self):
        return [t[2] for t in self.trace]

    def deviations(self):
        return sum(1 for t in self.trace if t[3] and t[2])


class NamedChooser(Chooser):
    """Answers each choice point from a {name: value} mapping (default elsewhere): lets a finite enumerator drive a choice-point builder
    through a complete product of a few named dimensions."""
    __slots__ = ('mapping',)

    def __init__(self, mapping):
        super().__init__(())
        self.mapping = mapping

    def _next(self, name, alts, costed):
        if name in self.mapping:
            v = self.mapping[name]
            if v not in alts:
                raise HarnessError('value %r is not an alternative of %s' % (v, name))
            c = alts.index(v)
        else:
            c = 0
        self.trace.append((name, len(alts), c, costed))
        if c:
            self.labels.append('%s=%s' % (name, _label(alts[c])))
        return alts[c]


def _label(v):
    if isinstance(v, (bytes, bytearray)):
        s = v.hex()
    elif isinstance(v, int) and not isinstance(v, bool) and abs(v) > 9:
        s = hex(v)
    elif callable(v) and hasattr(v, '__name__'):
        s = v.__name__
    else:
        s = repr(v)
    return s if len(s) <= 48 else s[:45] + '...'


class Case:
    """Result of one execution.

    fails       list of (path, expected, observed) — empty when the oracle held
    input       bytes (or str) identifying the generated input (hashed for `states`)
    outcome     bytes/str/any repr-able normalised observation (hashed for distinct outcomes)
    nontrivial  whether the compared observation was non-empty by the space's rule
    sample      small JSON-able description (only kept for a few cases)
    envelope    False if the case was generated but lies outside the claimed envelope
    """
    __slots__ = ('fails', 'input', 'outcome', 'nontrivial', 'sample', 'envelope', 'checks')

    def __init__(self, fails=None, input=b'', outcome=b'', nontrivial=True, sample=None,
                 envelope=True, checks=1):
        self.fails = fails or []
        self.input = input
        self.outcome = outcome
        self.nontrivial = nontrivial
        self.sample = sample
        self.envelope = envelope
        self.checks = checks


class ChoiceSpace:
    kind = 'choice'

    def __init__(self, name, run, k, rule='', deadline_s=None):
        self.name = name
        self.run = run              # run(ch) -> Case
        self.k = k
        self.rule = rule
        self.deadline_s = deadline_s


class BulkSpace:
    """A finite space enumerated in `nparts` slices by fn(part, nparts) -> BulkResult."""
    kind = 'bulk'

    def __init__(self, name, fn, nparts, replay, rule=''):
        self.name = name
        self.fn = fn
        self.nparts = nparts
        self.replay = replay        # replay(desc) -> list of fails
        self.rule = rule


class BulkResult:
    def __init__(self):
        self.evaluations = 0
        self.nontrivial = 0
        self.states = set()         # digests (or leave empty and set n_states)
        self.n_states = 0
        self.outcomes = set()
        self.fails = []             # (desc, path, expected, observed)
        self.sample = None
        self.outside = 0
        self.n_outcomes = 0         # distinct outcomes counted per slice (summed)


def digest(x):
    if isinstance(x, str):
        x = x.encode('utf-8', 'surrogatepass')
    elif not isinstance(x, (bytes, bytearray, memoryview)):
        x = repr(x).encode('utf-8', 'surrogatepass')
    return hashlib.blake2b(x, digest_size=8).digest()


# ---------------------------------------------------------------------------
# worker side

_SPACES = None          # set in the parent before the pool is forked


class _Stats:
    def __init__(self):
        self.evaluations = 0
        self.decisions = 0
        self.edges = 0
        self.nontrivial = set()
        self.states = set()
        self.outcomes = set()
        self.fails = []             # (choices, labels, path, exp, obs)
        self.nfail = 0
        self.by_dev = {}
        self.outside = 0
        self.partial = False
        self.samples = []
        self.points = {}            # choice name -> n alternatives (max)
        self.checks = 0
        self.error = None


def _explore_subtree(space, prefix, k, deadline, st, want_samples=0):
    run = space.run
    stack = [tuple(prefix)]
    while stack:
        if deadline and time.time() > deadline:
            st.partial = True
            return
        p = stack.pop()
        ch = Chooser(p)
        case = run(ch)
        tr = ch.trace
        if len(tr) < len(p):
            raise HarnessError('replay divergence: prefix longer than execution in ' + space.name)
        st.evaluations += 1
        st.decisions += len(tr)
        st.checks += case.checks
        nd = ch.deviations()
        st.by_dev[nd] = st.by_dev.get(nd, 0) + 1
        d = digest(case.input)
        st.states.add(d)
        st.outcomes.add(digest(case.outcome))
        if not case.envelope:
            st.outside += 1
        elif case.nontrivial:
            st.nontrivial.add(d)
        if case.fails:
            st.nfail += 1
            if len(st.fails) < (4000 if getattr(space, 'report_all', False) else MAX_FAILS_PER_TASK):
                f = case.fails[0]
                st.fails.append((ch.choices(), list(ch.labels), f[0], _short(f[1]), _short(f[2])))
        if want_samples and len(st.samples) < want_samples and case.sample is not None:
            st.samples.append({'choices': ch.labels or ['(all defaults)'], 'case': case.sample})
        # children
        cost = 0
        for t in tr[:len(p)]:
            if t[3] and t[2]:
                cost += 1
        for i in range(len(tr) - 1, len(p) - 1, -1):
            name, n, c, costed = tr[i]
            if name not in st.points or st.points[name] < n:
                st.points[name] = n
            if n < 2 or (costed and cost + 1 > k):
                continue
            head = tuple(t[2] for t in tr[:i])
            for alt in range(n - 1, 0, -1):
                stack.append(head + (alt,))
                st.edges += 1


def _short(v, n=300):
    s = v if isinstance(v, str) else repr(v)
    return s if len(s) <= n else s[:n] + '...(%d chars)' % len(s)


def _pack(st):
    return dict(evaluations=st.evaluations, decisions=st.decisions, edges=st.edges,
                nontrivial=st.nontrivial, states=st.states, outcomes=st.outcomes,
                fails=st.fails, nfail=st.nfail, by_dev=st.by_dev, outside=st.outside,
                partial=st.partial, samples=st.samples, points=st.points, checks=st.checks,
                error=st.error)


def _task(args):
    kind, si = args[0], args[1]
    space = _SPACES[si]
    try:
        if kind == 'choice':
            _, _, prefix, k, deadline, want = args
            st = _Stats()
            _explore_subtree(space, prefix, k, deadline, st, want)
            return ('choice', si, _pack(st))
        else:
            _, _, part = args
            r = space.fn(part, space.nparts)
            return ('bulk', si, dict(evaluations=r.evaluations, nontrivial=r.nontrivial,
                                     states=r.states, n_states=r.n_states, outcomes=r.outcomes,
                                     fails=[(d, p, _short(e), _short(o)) for d, p, e, o in r.fails[:(400 if getattr(space, 'report_all', False) else MAX_FAILS_PER_TASK)]],
                                     nfail=len(r.fails), sample=r.sample, outside=r.outside, n_outcomes=r.n_outcomes))
    except HarnessError:
        raise
    except Exception:
        return ('error', si, 'harness error in space %s (task %r):\n%s'
                % (space.name, args[2], traceback.format_exc()))


# ---------------------------------------------------------------------------
# parent side

def _frontier(space, k, target, cap=6000):
    """Expand the choice tree in the parent so that the subtrees handed to workers are
    balanced: a child is handed off only when its last deviation is a costed one and
    its remaining deviation budget is <= 1 (such subtrees have similar, small size);
    children reached through a free alternative, or with a larger remaining budget,
    are expanded here.  Every node is executed exactly once (here or in one worker)."""
    st = _Stats()
    level = [((), False)]
    roots = []
    done_nodes = 0
    while level:
        nxt = []
        for p, _ in level:
            if done_nodes >= cap:
                roots.append(p)
                continue
            ch = Chooser(p)
            case = space.run(ch)
            tr = ch.trace
            done_nodes += 1
            st.evaluations += 1
            st.decisions += len(tr)
            st.checks += case.checks
            nd = ch.deviations()
            st.by_dev[nd] = st.by_dev.get(nd, 0) + 1
            d = digest(case.input)
            st.states.add(d)
            st.outcomes.add(digest(case.outcome))
            if not case.envelope:
                st.outside += 1
            elif case.nontrivial:
                st.nontrivial.add(d)
            if case.fails:
                st.nfail += 1
                f = case.fails[0]
                if len(st.fails) < (4000 if getattr(space, 'report_all', False) else 4 * MAX_FAILS_PER_TASK):
                    st.fails.append((ch.choices(), list(ch.labels), f[0], _short(f[1]), _short(f[2])))
            if case.sample is not None and len(st.samples) < 1:
                st.samples.append({'choices': ch.labels or ['(all defaults)'], 'case': case.sample})
            cost = sum(1 for t in tr[:len(p)] if t[3] and t[2])
            for i in range(len(p), len(tr)):
                name, n, c, costed = tr[i]
                if name not in st.points or st.points[name] < n:
                    st.points[name] = n
                if n < 2 or (costed and cost + 1 > k):
                    continue
                head = tuple(t[2] for t in tr[:i])
                budget = k - cost - (1 if costed else 0)
                for alt in range(1, n):
                    st.edges += 1
                    if costed and budget <= 1:
                        roots.append(head + (alt,))
                    else:
                        nxt.append((head + (alt,), costed))
        level = nxt
    return st, roots


WORKER_AS_LIMIT = int(os.environ.get('VERIF_WORKER_AS_GIB', '4')) << 30


def _worker_init():
    """Every worker lives under an address-space limit: a runaway allocation in the code under test raises MemoryError inside
    the worker (an observation the oracle judges) instead of inviting the OOM killer, which would silently take a worker away."""
    import resource
    try:
        resource.setrlimit(resource.RLIMIT_AS, (WORKER_AS_LIMIT, WORKER_AS_LIMIT))
    except (ValueError, OSError):
        pass


class WorkerPool:
    """multiprocessing.Pool hangs for ever when a worker is killed; this one (concurrent.futures) notices and turns it into a HarnessError."""

    def __init__(self, n=None):
        import concurrent.futures as cf
        self._cf = cf
        self.ex = cf.ProcessPoolExecutor(max_workers=n or NPROC, mp_context=mp.get_context('fork'), initializer=_worker_init)

    def imap_unordered(self, fn, tasks, chunksize=1):
        tasks = list(tasks)
        chunks = [tasks[i:i + chunksize] for i in range(0, len(tasks), chunksize)]
        futs = [self.ex.submit(_run_chunk, fn, c) for c in chunks]
        try:
            for f in self._cf.as_completed(futs):
                for r in f.result():
                    yield r
        except self._cf.process.BrokenProcessPool:
            raise HarnessError('a worker process died while running %s (killed by the operating system - memory exhaustion?)' % getattr(fn, '__name__', fn))

    def terminate(self):
        procs = list((getattr(self.ex, '_processes', None) or {}).values())
        self.ex.shutdown(wait=False, cancel_futures=True)
        for p in procs:
            try:
                p.terminate()
            except Exception:       # noqa: BLE001
                pass

    def __enter__(self):
        return self

    def __exit__(self, *a):
        self.ex.shutdown(wait=True, cancel_futures=True)


def _run_chunk(fn, chunk):
    return [fn(t) for t in chunk]


def run_spaces(spaces, log=None):
    """Enumerate every space; returns list of per-space result dicts."""
    global _SPACES
    _SPACES = spaces
    log = log or (lambda s: None)
    results = []
    ctx = mp.get_context('fork')
    t_all = time.time()
    tasks = []
    agg = []
    for si, sp in enumerate(spaces):
        a = dict(name=sp.name, kind=sp.kind, rule=sp.rule, evaluations=0, decisions=0, edges=0,
                 states=set(), n_states=0, nontrivial=set(), n_nontrivial=0, outcomes=set(),
                 fails=[], nfail=0, by_dev={}, outside=0, partial=False, samples=[], points={}, n_outcomes=0,
                 checks=0, k=getattr(sp, 'k', None), wall_s=0.0, errors=[])
        agg.append(a)
        if sp.kind == 'choice':
            deadline = (time.time() + sp.deadline_s) if sp.deadline_s else None
            st, roots = _frontier(sp, sp.k, NPROC * 6)
            _merge_choice(a, _pack(st))
            for j, p in enumerate(roots):
                tasks.append(('choice', si, p, sp.k, deadline, 1 if j in (len(roots) // 3, 2 * len(roots) // 3) else 0))
        else:
            for part in range(sp.nparts):
                tasks.append(('bulk', si, part))
    if tasks:
        if NPROC > 1:
            with WorkerPool(NPROC) as pool:
                for kind, si, res in pool.imap_unordered(_task, tasks, chunksize=max(1, min(64, len(tasks) // (NPROC * 32)))):
                    _merge(agg[si], kind, res)
        else:
            for t in tasks:
                kind, si, res = _task(t)
                _merge(agg[si], kind, res)
    for a in agg:
        a['wall_s'] = round(time.time() - t_all, 2)
        a['fails'].sort(key=lambda f: (len(str(f[0])), str(f[0])))
    return agg


def _merge(a, kind, res):
    if kind == 'error':
        a['errors'].append(res)
    elif kind == 'choice':
        _merge_choice(a, res)
    else:
        a['evaluations'] += res['evaluations']
        a['n_nontrivial'] += res['nontrivial']
        a['states'] |= res['states']
        a['n_states'] += res['n_states']
        a['outcomes'] |= res['outcomes']
        a['fails'].extend(res['fails'])
        a['nfail'] += res['nfail']
        a['outside'] += res['outside']
        a['n_outcomes'] += res['n_outcomes']
        if res['sample'] is not None and len(a['samples']) < 2:
            a['samples'].append(res['sample'])


def _merge_choice(a, r):
    a['evaluations'] += r['evaluations']
    a['decisions'] += r['decisions']
    a['edges'] += r['edges']
    a['states'] |= r['states']
    a['nontrivial'] |= r['nontrivial']
    a['outcomes'] |= r['outcomes']
    a['fails'].extend(r['fails'])
    a['nfail'] += r['nfail']
    a['outside'] += r['outside']
    a['partial'] = a['partial'] or r['partial']
    a['checks'] += r['checks']
    for k, v in r['by_dev'].items():
        a['by_dev'][k] = a['by_dev'].get(k, 0) + v
    for k, v in r['points'].items():
        if a['points'].get(k, 0) < v:
            a['points'][k] = v
    for s in r['samples']:
        if len(a['samples']) < 3:
            a['samples'].append(s)


def minimise(space, choices):
    """Reset deviations to default one at a time while the first failing path stays
    the same.  Returns (choices, labels, fail, case) of the minimised execution, or None
    if the failure does not reproduce in isolation (order-dependent)."""
    def run(cs):
        ch = Chooser(tuple(cs))
        try:
            case = space.run(ch)
        except HarnessError:
            return None, None
        return ch, case
    ch, case = run(choices)
    if ch is None or not case.fails:
        return None
    path = case.fails[0][0]
    cur = ch.choices()
    changed = True
    while changed:
        changed = False
        for i in range(len(cur) - 1, -1, -1):
            if cur[i] == 0:
                continue
            trial = list(cur)
            trial[i] = 0
            ch2, case2 = run(trial)
            if ch2 is not None and case2.fails and case2.fails[0][0] == path:
                cur = ch2.choices()
                ch, case = ch2, case2
                changed = True
                break
    # strip trailing defaults
    while cur and cur[-1] == 0:
        cur.pop()
    return cur, list(ch.labels), case.fails[0], case


# ---------------------------------------------------------------------------
# convenience: a finite list of cases enumerated completely (E3)

def ListSpace(name, gen, check, nparts=NPROC, rule=''):
    """gen() yields JSON-able case descriptors in a deterministic order; check(desc)
    returns (fails, nontrivial, outcome[, input]).  Part p handles cases i % nparts == p."""
    def fn(part, n):
        r = BulkResult()
        for i, desc in enumerate(gen()):
            if i % n != part:
                continue
            out = check(desc)
            fails, nontrivial, outcome = out[0], out[1], out[2]
            r.evaluations += 1
            r.states.add(digest(out[3] if len(out) > 3 else repr(desc)))
            r.outcomes.add(digest(outcome))
            if len(out) > 4 and out[4]:
                r.outside += 1          # generated but outside the claimed envelope (e.g. the oracle itself declines the case)
            elif nontrivial:
                r.nontrivial += 1
            if fails:
                f = fails[0]
                r.fails.append((desc, f[0], f[1], f[2]))
            if r.sample is None and part == 0:
                r.sample = {'case': desc, 'observed': _short(outcome, 200)}
        return r

    def replay(desc):
        return check(desc)[0]
    return BulkSpace(name, fn, nparts, replay, rule)


def guarded(fn, *a, **kw):
    """Run an observation of the library; an exception is an observation, not a crash."""
    try:
        return fn(*a, **kw)
    except HarnessError:
        raise
    except Exception as e:       # noqa: BLE001 - any library exception is an observation
        return Raised(e)


class Raised:
    def __init__(self, e):
        self.type = type(e).__name__
        self.mro = [c.__name__ for c in type(e).__mro__]
        self.msg = str(e)[:200]
        tb = e.__traceback__
        where = ''
        while tb is not None:
            fn = tb.tb_frame.f_code.co_filename
            if 'elftools' in fn:
                where = '%s:%s' % (os.path.basename(fn), tb.tb_frame.f_code.co_name)
            tb = tb.tb_next
        self.where = where

    def isa(self, name):
        return name in self.mro

    def __repr__(self):
        return 'raises %s(%s) in %s' % (self.type, self.msg, self.where)

    def __eq__(self, other):
        return isinstance(other, Raised) and other.type == self.type

    def __hash__(self):
        return hash(self.type)
