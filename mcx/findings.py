"""Known findings: committed list, read-only at run time."""
import json
import os
import re

ROOT = os.path.dirname(os.path.dirname(os.path.abspath(__file__)))
PATH = os.path.join(ROOT, 'known_findings.json')


def load(prop_id):
    try:
        doc = json.load(open(PATH))
    except FileNotFoundError:
        return []
    return [f for f in doc.get('findings', []) if f['property'] == prop_id and f.get('status') == 'open']


def match(findings, space, labels, path, observed=None):
    for f in findings:
        m = f['match']
        if 'observed' in m and (observed is None or not re.search(m['observed'], str(observed), re.S)):
            continue
        if not re.fullmatch(m.get('space', '.*'), space):
            continue
        if not re.search(m.get('path', ''), path):
            continue
        ok = True
        for pat in m.get('labels_all', []):
            if not any(re.search(pat, l) for l in labels):
                ok = False
                break
        if ok and 'labels_max' in m and len(labels) > m['labels_max']:
            ok = False
        if ok:
            return f
    return None
