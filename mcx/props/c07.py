"""C07 — location and range lists decode to exactly the encoded entries.

E1 over a model of .debug_loc/.debug_ranges (pre-v5) and .debug_loclists/.debug_rnglists (v5) with a
small .debug_info whose DIEs designate the lists in every capable form: list counts, entry kinds
(every DW_LLE / DW_RLE incl. base-selection, default location, indexed forms through .debug_addr),
expression lengths, LEB operand widths, offset tables, several unit blocks (mixed 32/64-bit), gaps,
location-view pairs, both v4 and v5 sections present.  Plus the complete classification matrix
attribute name x form x version (expression vs list vs neither) per DWARF 7.5.4-7.5.5.
"""
import struct

from mcx import core, dwarfgen as dg
from mcx.core import Case, ChoiceSpace, ListSpace, guarded, Raised
from mcx.dwarfgen import F, TAG, AT, Abbrev, Die, Unit, DP, null
from mcx.ref import leb

ID = 'C07'
LEVEL = 'model_checking'
ASSUMPTIONS = ['list entries use the container\'s default address size (the library parses list sections with the file-level structs)',
               'v5 lists referenced by DIEs are laid out in increasing offset order inside their unit block, as producers emit them',
               'classification matrix restricted to form/attribute/version combinations the standards define unambiguously']
SEED = 0
ADDRS = [0x1000, 0x2000, 0x401000, 0x10]      # .debug_addr contents


def enc_v4_loc(entries, dp):
    out = b''
    recs = []
    mx = (1 << (8 * dp.addr)) - 1
    for e in entries:
        off = len(out)
        if e[0] == 'base':
            out += dp.address(mx) + dp.address(e[1])
            recs.append(('base', off, len(out) - off, e[1]))
        else:
            out += dp.address(e[1]) + dp.address(e[2]) + dp.u(2, len(e[3])) + bytes(e[3])
            recs.append(('loc', off, len(out) - off, e[1], e[2], list(e[3]), False))
    out += dp.address(0) + dp.address(0)
    return out, recs


def enc_v4_rng(entries, dp):
    out = b''
    recs = []
    mx = (1 << (8 * dp.addr)) - 1
    for e in entries:
        off = len(out)
        if e[0] == 'base':
            out += dp.address(mx) + dp.address(e[1])
            recs.append(('base', off, None, e[1]))
        else:
            out += dp.address(e[1]) + dp.address(e[2])
            recs.append(('rng', off, len(out) - off, e[1], e[2], False))
    out += dp.address(0) + dp.address(0)
    return out, recs


def enc_v5_list(entries, dp, loc, pad=0):
    """entries: (kind, operands...[, expr]) -> bytes, translated expectation records (offset relative to list start)"""
    out = b''
    recs = []
    am = (1 << (8 * dp.addr)) - 1
    LLE = dict(end_of_list=0, base_addressx=1, startx_endx=2, startx_length=3, offset_pair=4, default_location=5, base_address=6, start_end=7, start_length=8)
    RLE = dict(end_of_list=0, base_addressx=1, startx_endx=2, startx_length=3, offset_pair=4, base_address=5, start_end=6, start_length=7)
    code = LLE if loc else RLE
    for e in entries:
        off = len(out)
        k = e[0]
        b = bytes([code[k]])
        expr = list(e[-1]) if loc and k not in ('base_addressx', 'base_address') else None
        if k == 'base_addressx':
            b += leb.uleb(e[1], pad)
            rec = ('base', ADDRS[e[1]] & am)
        elif k == 'startx_endx':
            b += leb.uleb(e[1], pad) + leb.uleb(e[2], pad)
            rec = ('ent', ADDRS[e[1]] & am, ADDRS[e[2]] & am, True)
        elif k == 'startx_length':
            b += leb.uleb(e[1], pad) + leb.uleb(e[2], pad)
            rec = ('ent', ADDRS[e[1]] & am, (ADDRS[e[1]] & am) + e[2], True)
        elif k == 'offset_pair':
            b += leb.uleb(e[1], pad) + leb.uleb(e[2], pad)
            rec = ('ent', e[1], e[2], False)
        elif k == 'default_location':
            rec = ('ent', -1, -1, True)
        elif k == 'base_address':
            b += dp.address(e[1])
            rec = ('base', e[1] & am)
        elif k == 'start_end':
            b += dp.address(e[1]) + dp.address(e[2])
            rec = ('ent', e[1] & am, e[2] & am, True)
        elif k == 'start_length':
            b += dp.address(e[1]) + leb.uleb(e[2], pad)
            rec = ('ent', e[1] & am, (e[1] & am) + e[2], True)
        if expr is not None:
            b += leb.uleb(len(expr), pad) + bytes(expr)
        out += b
        recs.append((rec, off, len(b), expr, k, e))
    out += b'\0'
    return out, recs


def exprs(kind):
    return {'typical': b'\x91\x68', 'empty': b'', 'one': b'\x50', 'long': bytes((i * 7) & 0xff for i in range(300))}[kind]


def v5_entries(kind, loc, ex):
    E = (ex,) if loc else ()
    sets = {
        'typical': [('offset_pair', 0x10, 0x20) + E, ('offset_pair', 0x30, 0x1000) + E],
        'empty': [],
        'base_then_pairs': [('base_address', 0x400000), ('offset_pair', 0, 8) + E, ('base_address', (1 << 64) - 16), ('offset_pair', 1, 2) + E],
        'start_forms': [('start_end', 0x1000, 0x1010) + E, ('start_length', 0x2000, 0x300) + E, ('start_length', 0, 0) + E],
        'indexed': [('base_addressx', 2), ('startx_endx', 0, 1) + E, ('startx_length', 3, 300) + E, ('offset_pair', 4, 5) + E],
        'every_kind': [('base_addressx', 1), ('startx_endx', 0, 1) + E, ('startx_length', 0, 1) + E, ('offset_pair', 0, (1 << 32)) + E] + ([('default_location',) + E] if loc else [])
        + [('base_address', 0x1234), ('start_end', 1, 2) + E, ('start_length', 5, 0x7f) + E],
    }
    return sets[kind]


def v4_entries(kind, loc, ex, dp):
    E = (ex,) if loc else ()
    sets = {
        'typical': [('pair', 0x10, 0x20) + E, ('pair', 0x30, 0x1000) + E],
        'empty': [],
        'base_then_pairs': [('base', 0x400000), ('pair', 0, 8) + E, ('base', 0), ('pair', 1, 2) + E],
        'start_forms': [('pair', 0x1000, 0x1010) + E, ('pair', 5, 5) + E],
        'indexed': [('pair', 1, (1 << (8 * dp.addr)) - 2) + E],
        'every_kind': [('base', (1 << (8 * dp.addr)) - 2), ('pair', 8, 16) + E, ('pair', (1 << (8 * dp.addr)) - 2, 1) + E],
    }
    return sets[kind]


def build(ch):
    le = ch.free('data', [True, False])
    addr = ch.free('address_size', [8, 4])
    fmt = ch.free('format', [32, 64])
    era = ch.pick('sections', ['v5', 'v4', 'both'])
    nlists = ch.pick('lists', [2, 1, 3])
    ekind = ch.pick('entries', ['typical', 'empty', 'base_then_pairs', 'start_forms', 'indexed', 'every_kind'])
    exk = ch.pick('expression', ['typical', 'empty', 'one', 'long'])
    pad = ch.pick('leb_width', [0, 2, 10])
    off_count = ch.pick('offset_count', ['all', 0])
    blocks = ch.pick('unit_blocks', [1, 2])
    gap = ch.pick('gap_before_list', [0, 3])
    views = ch.pick('view_pairs', [0, 2])
    ref_form = ch.pick('reference_form', ['sec_offset', 'listx', 'data'])
    cu_version4 = ch.pick('pre_v5_cu_version', [4, 3, 2])
    trailing = ch.pick('trailing_bytes_in_block', [0, 5])
    # the container's default address size (ELF class / 8) need not be the unit's address_size (4-byte units in an ELF64 file and the reverse). Entries
    # that carry no literal address - offset pairs and the indexed kinds, whose addresses come from .debug_addr with the UNIT's address size - must decode
    # identically; entries with literal addresses are read with the container's size by design of the API and are left out of this sub-space.
    container = ch.pick('container_default_address_size', ['unit', 'other'])
    mismatch = container == 'other' and era == 'v5' and ekind in ('typical', 'empty', 'indexed')
    dp5 = DP(le, fmt, addr, 5)
    dp4 = DP(le, fmt, addr, cu_version4)
    ex = exprs(exk)
    secs = {}
    model = {'v4': None, 'v5': None}
    units = []
    # ---------------- v5
    if era in ('v5', 'both'):
        def make_v5(loc):
            buf = b''
            blocks_info = []
            lists = []      # (abs offset of list, recs, block index, index in offset table, view pairs abs offset or None)
            for bi in range(blocks):
                bdp = DP(le, (64 if (bi == 1 and fmt == 32) else fmt) if blocks == 2 else fmt, addr, 5)
                n = nlists if bi == 0 else 1
                bodies = []
                for li in range(n):
                    ents = v5_entries(ekind if li == 0 else ('typical' if (li == 1 or mismatch) else 'start_forms'), loc, ex)
                    b, recs = enc_v5_list(ents, dp5, loc, pad if li == 0 else 0)
                    pre = b''
                    vp = None
                    if gap and li == n - 1:
                        pre += b'\xee' * gap
                    if loc and views and li == 0 and bi == 0:
                        vp = len(pre)
                        for k in range(views):
                            pre += leb.uleb(k + 1) + leb.uleb(k + 2)
                    bodies.append((pre, b, recs, vp))
                oc = n if off_count == 'all' else 0
                osz = bdp.osz
                table_len = oc * osz
                rel = table_len
                rels = []
                for pre, b, recs, vp in bodies:
                    rels.append((rel + len(pre), rel + vp if vp is not None else None))
                    rel += len(pre) + len(b)
                payload = b''.join(bdp.off(r[0]) for r in rels[:oc]) + b''.join(pre + b for pre, b, recs, vp in bodies) + b'\xdd' * (trailing if bi == blocks - 1 else 0)
                hdr = bdp.initial_length(8 + len(payload)) + bdp.u(2, 5) + bytes([addr, 0]) + bdp.u(4, oc)
                base = len(buf) + len(hdr)
                blocks_info.append(dict(offset=len(buf), is64=bdp.fmt == 64, unit_length=8 + len(payload), offset_count=oc, table_offset=base,
                                        offsets=[r[0] for r in rels[:oc]], end=len(buf) + len(hdr) + len(payload), after_length=len(buf) + (4 if bdp.fmt == 32 else 12)))
                for li, ((pre, b, recs, vp), r) in enumerate(zip(bodies, rels)):
                    lists.append(dict(offset=base + r[0], recs=recs, block=bi, index=li, views=(base + r[1]) if r[1] is not None else None, nviews=views if r[1] is not None else 0,
                                      base=base, length=len(b)))
                buf += hdr + payload
            return buf, blocks_info, lists
        lbuf, lblocks, llists = make_v5(True)
        rbuf, rblocks, rlists = make_v5(False)
        secs['.debug_loclists'], secs['.debug_rnglists'] = lbuf, rbuf
        model['v5'] = dict(loc=(lblocks, llists), rng=(rblocks, rlists))
    if era in ('v4', 'both'):
        lbuf = b'\x11' * 0
        llists = []
        rbuf = b''
        rlists = []
        for li in range(nlists):
            b, recs = enc_v4_loc(v4_entries(ekind if li == 0 else 'typical', True, ex, dp4), dp4)
            llists.append(dict(offset=len(lbuf), recs=recs))
            lbuf += b
            b, recs = enc_v4_rng(v4_entries(ekind if li == 0 else 'typical', False, ex, dp4), dp4)
            rlists.append(dict(offset=len(rbuf), recs=recs))
            rbuf += b
        secs['.debug_loc'], secs['.debug_ranges'] = lbuf, rbuf
        model['v4'] = dict(loc=llists, rng=rlists)
    # ---------------- .debug_info
    # .debug_addr: header + table (one contribution, CU addr_base points at the table)
    body = b''.join(dp5.address(a) for a in ADDRS)
    ahdr = dp5.initial_length(4 + len(body)) + dp5.u(2, 5) + bytes([addr, 0])
    secs['.debug_addr'] = ahdr + body
    refs = []       # (unit index, die label, 'loc'|'rng', list dict, form name, era)
    if model['v5']:
        lblocks, llists = model['v5']['loc']
        rblocks, rlists = model['v5']['rng']
        use_x = ref_form == 'listx' and off_count == 'all'
        root_specs = [(AT['name'], F['string'], None), (AT['addr_base'], F['sec_offset'], None)]
        root_vals = [b'cu5', len(ahdr)]
        if use_x:
            root_specs += [(AT['loclists_base'], F['sec_offset'], None), (AT['rnglists_base'], F['sec_offset'], None)]
            root_vals += [lblocks[0]['table_offset'], rblocks[0]['table_offset']]
        kids = []
        code = 2
        for li, (ll, rl) in enumerate(zip([x for x in llists if x['block'] == 0], [x for x in rlists if x['block'] == 0])):
            specs = [(AT['name'], F['string'], None)]
            vals = [b'v%d' % li]
            if ll['views'] is not None:
                specs.append((AT['GNU_locviews'], F['sec_offset'], None))
                vals.append(ll['views'])
            if use_x:
                specs += [(AT['location'], F['loclistx'], None), (AT['ranges'], F['rnglistx'], None)]
                vals += [('idx', ll['index']), ('idx', rl['index'])]
            else:
                specs += [(AT['location'], F['sec_offset'], None), (AT['ranges'], F['sec_offset'], None)]
                vals += [ll['offset'], rl['offset']]
            a = Abbrev(code, TAG['variable'], False, specs)
            code += 1
            kids.append(Die(a, vals, label='v5die%d' % li))
            refs.append((len(units), 'v5die%d' % li, ll, rl, 5))
        # an expression-valued location too
        kids.append(Die(Abbrev(code, TAG['variable'], False, [(AT['name'], F['string'], None), (AT['location'], F['exprloc'], None)]), [b'ex', ex[:200]], label='v5expr'))
        root = Die(Abbrev(1, TAG['compile_unit'], True, root_specs), root_vals, kids + [null()], label='root5')
        u5 = Unit(dp5, root)
        units.append(u5)
        # second unit block is designated by a second CU through sec_offset
        if blocks == 2:
            l2 = [x for x in llists if x['block'] == 1][0]
            r2 = [x for x in rlists if x['block'] == 1][0]
            a = Abbrev(20, TAG['variable'], False, [(AT['location'], F['sec_offset'], None), (AT['ranges'], F['sec_offset'], None)])
            rootb = Die(Abbrev(21, TAG['compile_unit'], True, [(AT['name'], F['string'], None), (AT['addr_base'], F['sec_offset'], None)]), [b'cu5b', len(ahdr)],
                        [Die(a, [l2['offset'], r2['offset']], label='v5bdie'), null()], label='root5b')
            refs.append((len(units), 'v5bdie', l2, r2, 5))
            units.append(Unit(dp5, rootb))
    if model['v4']:
        lform = F['sec_offset'] if cu_version4 >= 4 else (F['data4'] if (ref_form != 'data' or fmt == 32) else F['data8'])
        if cu_version4 < 4 and fmt == 64:
            lform = F['data8']
        kids = []
        code = 40
        for li, (ll, rl) in enumerate(zip(model['v4']['loc'], model['v4']['rng'])):
            a = Abbrev(code, TAG['variable'], False, [(AT['name'], F['string'], None), (AT['location'], lform, None), (AT['ranges'], lform, None)])
            code += 1
            kids.append(Die(a, [b'w%d' % li, ll['offset'], rl['offset']], label='v4die%d' % li))
            refs.append((len(units), 'v4die%d' % li, ll, rl, 4))
        blockform = F['exprloc'] if cu_version4 >= 4 else F['block1']
        kids.append(Die(Abbrev(code, TAG['variable'], False, [(AT['name'], F['string'], None), (AT['location'], blockform, None)]), [b'ex', ex[:200]], label='v4expr'))
        root = Die(Abbrev(39, TAG['compile_unit'], True, [(AT['name'], F['string'], None)]), [b'cu4'], kids + [null()], label='root4')
        units.append(Unit(dp4, root))
    asm = dg.Assembly(units, le=le)
    s = asm.assemble()
    secs['.debug_info'], secs['.debug_abbrev'], secs['.debug_str'] = s['.debug_info'], s['.debug_abbrev'], s['.debug_str']
    return secs, model, refs, units, asm, dict(le=le, addr=addr, default_addr=((12 - addr) if mismatch else addr), fmt=fmt, era=era, ex=list(ex), cu4=cu_version4)


def norm_loc(lst):
    out = []
    for e in lst:
        n = type(e).__name__
        if n == 'BaseAddressEntry':
            out.append(('base', e.entry_offset, getattr(e, 'entry_length', None), e.base_address))
        elif n == 'LocationEntry':
            out.append(('loc', e.entry_offset, e.entry_length, e.begin_offset, e.end_offset, list(e.loc_expr), bool(e.is_absolute)))
        elif n == 'RangeEntry':
            out.append(('rng', e.entry_offset, e.entry_length, e.begin_offset, e.end_offset, bool(e.is_absolute)))
        elif n == 'LocationViewPair':
            out.append(('view', e.entry_offset, e.begin, e.end))
        else:
            out.append(('?', n))
    return out


def exp_v5(lst, loc):
    out = []
    for rec, off, ln, expr, k, e in lst['recs']:
        ao = lst['offset'] + off
        if rec[0] == 'base':
            out.append(('base', ao, ln, rec[1]) if loc else ('base', ao, None, rec[1]))
        elif loc:
            out.append(('loc', ao, ln, rec[1], rec[2], expr, rec[3]))
        else:
            out.append(('rng', ao, ln, rec[1], rec[2], rec[3]))
    return out


def exp_v4(lst, loc):
    out = []
    for r in lst['recs']:
        if r[0] == 'base':
            out.append(('base', lst['offset'] + r[1], r[2], r[3]))
        elif loc:
            out.append(('loc', lst['offset'] + r[1], r[2], r[3], r[4], r[5], r[6]))
        else:
            out.append(('rng', lst['offset'] + r[1], r[2], r[3], r[4], r[5]))
    return out


def run(ch):
    secs, model, refs, units, asm, info = build(ch)
    data = b'|'.join(secs[k] for k in sorted(secs))
    fails = []
    dw = guarded(dg.make_dwarfinfo, secs, info['le'], info['default_addr'])
    if isinstance(dw, Raised):
        return Case([('DWARFInfo()', 'constructs', dw)], data, repr(dw))
    from elftools.dwarf.locationlists import LocationParser
    ll = guarded(dw.location_lists)
    rl = guarded(dw.range_lists)
    want = {'v5': ('LocationLists', 'RangeLists'), 'v4': ('LocationLists', 'RangeLists'), 'both': ('LocationListsPair', 'RangeListsPair')}[info['era']]
    if type(ll).__name__ != want[0]:
        fails.append(('location_lists() class', want[0], ll))
    if type(rl).__name__ != want[1]:
        fails.append(('range_lists() class', want[1], rl))
    if fails:
        return Case(fails, data, repr(fails))
    cus = list(dw.iter_CUs())
    lp = LocationParser(ll)
    outs = []
    by_label = {}
    for ui, cu in enumerate(cus):
        for die in cu.iter_DIEs():
            for d in units[ui].dies:
                if d.offset == die.offset and d.label:
                    by_label[d.label] = (die, cu)
    for ui, label, lmod, rmod, ver in refs:
        die, cu = by_label[label]
        cuv = cu['version']
        el = exp_v5(lmod, True) if ver == 5 else exp_v4(lmod, True)
        er = exp_v5(rmod, False) if ver == 5 else exp_v4(rmod, False)
        attr = die.attributes['DW_AT_location']
        p = '%s.' % label
        g = guarded(lambda: lp.attribute_has_location(attr, cuv))
        if g is not True:
            fails.append((p + 'attribute_has_location', True, g))
        g = guarded(lambda: norm_loc(lp.parse_from_attribute(attr, cuv, die)))
        if g != el:
            fails.append((p + 'parse_from_attribute(DW_AT_location)', el[:3], g if isinstance(g, Raised) else g[:3]))
        outs.append(g)
        g = guarded(lambda: norm_loc(ll.get_location_list_at_offset(lmod['offset'], die)))
        if g != el:
            fails.append((p + 'get_location_list_at_offset(%#x)' % lmod['offset'], el[:3], g if isinstance(g, Raised) else g[:3]))
        if attr.value != lmod['offset']:
            fails.append((p + 'DW_AT_location.value (resolved list offset)', lmod['offset'], attr.value))
        rattr = die.attributes['DW_AT_ranges']
        if rattr.value != rmod['offset']:
            fails.append((p + 'DW_AT_ranges.value (resolved list offset)', rmod['offset'], rattr.value))
        g = guarded(lambda: norm_loc(rl.get_range_list_at_offset(rmod['offset'], cu)))
        if g != er:
            fails.append((p + 'get_range_list_at_offset(%#x)' % rmod['offset'], er[:3], g if isinstance(g, Raised) else g[:3]))
        outs.append(g)
        if ver == 5:
            # untranslated v5 entries + translate_v5_entry
            g = guarded(lambda: norm_loc([rl.translate_v5_entry(e, cu) for e in rl.get_range_list_at_offset_ex(rmod['offset'])]))
            if g != er:
                fails.append((p + 'get_range_list_at_offset_ex + translate_v5_entry', er[:3], g if isinstance(g, Raised) else g[:3]))
    # expression-valued attributes
    for label in ('v5expr', 'v4expr'):
        if label in by_label:
            die, cu = by_label[label]
            attr = die.attributes['DW_AT_location']
            g = guarded(lambda: lp.parse_from_attribute(attr, cu['version'], die))
            if type(g).__name__ != 'LocationExpr' or list(g.loc_expr) != info['ex'][:200]:
                fails.append((label + '.parse_from_attribute', 'LocationExpr(%d bytes)' % len(info['ex'][:200]), g))
    # enumeration (single-section objects only; the Pair front ends document that they raise)
    if info['era'] in ('v5', 'v4'):
        ver = 5 if info['era'] == 'v5' else 4
        if ver == 5:
            lblocks, llists = model['v5']['loc']
            rblocks, rlists = model['v5']['rng']
            want_l = []
            for ui, label, lmod, rmod, v in refs:
                e = exp_v5(lmod, True)
                vp = [('view', lmod['views'] + sum(len(leb.uleb(j + 1)) + len(leb.uleb(j + 2)) for j in range(k)), k + 1, k + 2) for k in range(lmod['nviews'])] if lmod['views'] is not None else []
                want_l.append((lmod['offset'], vp + e))
            want_l = [x[1] for x in sorted(want_l, key=lambda x: x[0])]
            want_r = [exp_v5(rmod, False) for _, _, _, rmod, _ in sorted(refs, key=lambda r: r[3]['offset'])]
        else:
            want_l = [exp_v4(lmod, True) for _, _, lmod, _, _ in sorted(refs, key=lambda r: r[2]['offset'])]
            want_r = [exp_v4(rmod, False) for _, _, _, rmod, _ in sorted(refs, key=lambda r: r[3]['offset'])]
        g = guarded(lambda: [norm_loc(x) for x in ll.iter_location_lists()])
        if g != want_l:
            fails.append(('iter_location_lists()', [len(x) for x in want_l], g if isinstance(g, Raised) else [len(x) for x in g]))
        g = guarded(lambda: [norm_loc(x) for x in rl.iter_range_lists()])
        if g != want_r:
            fails.append(('iter_range_lists()', [len(x) for x in want_r], g if isinstance(g, Raised) else [len(x) for x in g]))
        # the same enumerations as the FIRST thing asked of a fresh object (no entry parsed, no attribute translated yet)
        for what, want in (('loc', want_l), ('rng', want_r)):
            dwf = dg.make_dwarfinfo(secs, info['le'], info['default_addr'])
            g = guarded(lambda: [norm_loc(x) for x in (dwf.location_lists().iter_location_lists() if what == 'loc' else dwf.range_lists().iter_range_lists())])
            if g != want:
                fails.append(('fresh object: iter_%s_lists()' % ('location' if what == 'loc' else 'range'), [len(x) for x in want], g if isinstance(g, Raised) else [len(x) for x in g]))
        if ver == 5:
            for name, obj, blocks_, lists_, loc in (('loclists', ll, lblocks, llists, True), ('rnglists', rl, rblocks, rlists, False)):
                g = guarded(lambda: [dict(h) for h in obj.iter_CUs()])
                if isinstance(g, Raised) or len(g) != len(blocks_):
                    fails.append((name + '.iter_CUs()', len(blocks_), g if isinstance(g, Raised) else len(g)))
                    continue
                for bi, (h, b) in enumerate(zip(g, blocks_)):
                    e = dict(cu_offset=b['offset'], unit_length=b['unit_length'], is64=b['is64'], version=5, address_size=info['addr'], segment_selector_size=0,
                             offset_count=b['offset_count'], offset_table_offset=b['table_offset'], offset_after_length=b['after_length'])
                    for k, v in e.items():
                        if h.get(k) != v:
                            fails.append(('%s.iter_CUs()[%d].%s' % (name, bi, k), v, h.get(k)))
                    offs = h.get('offsets')
                    if (list(offs) if offs else []) != b['offsets']:
                        fails.append(('%s.iter_CUs()[%d].offsets' % (name, bi), b['offsets'], offs))
            # the section's own unit blocks enumerate exactly their lists (range lists)
            hs = guarded(lambda: list(rl.iter_CUs()))
            if not isinstance(hs, Raised) and not ch_has_gap(model):
                for bi, h in enumerate(hs):
                    mine = [x for x in rlists if x['block'] == bi]
                    g = guarded(lambda: [norm_loc([rl.translate_v5_entry(e, cus[0]) for e in lst]) for lst in rl.iter_CU_range_lists_ex(h)])
                    e = [exp_v5(x, False) for x in mine]
                    if g != e:
                        fails.append(('rnglists.iter_CU_range_lists_ex(block %d)' % bi, [len(x) for x in e], g if isinstance(g, Raised) else [len(x) for x in g]))
                    # ... also on a fresh object, where translating an entry parses entries of .debug_info for the first time between two yields
                    dwf = dg.make_dwarfinfo(secs, info['le'], info['default_addr'])
                    rlf = dwf.range_lists()

                    def fresh_walk():
                        cu0 = next(dwf.iter_CUs())
                        hf = list(rlf.iter_CUs())[bi]
                        return [norm_loc([rlf.translate_v5_entry(e_, cu0) for e_ in lst]) for lst in rlf.iter_CU_range_lists_ex(hf)]
                    g = guarded(fresh_walk)
                    if g != e:
                        fails.append(('fresh object: rnglists.iter_CU_range_lists_ex(block %d)' % bi, [len(x) for x in e], g if isinstance(g, Raised) else [len(x) for x in g]))
    n = sum(len(r[2]['recs']) + len(r[3]['recs']) for r in refs)
    return Case(fails, data, repr(outs), nontrivial=n > 0,
                sample={'le': info['le'], 'address_size': info['addr'], 'format': info['fmt'], 'sections': info['era'], 'lists': len(refs), 'entries': n,
                        'loclists_bytes': len(secs.get('.debug_loclists', b'')), 'loc_bytes': len(secs.get('.debug_loc', b''))}, checks=4 * len(refs) + 4)


def ch_has_gap(model):
    """iter_CU_range_lists_ex walks a block linearly: it is only claimed when the block holds nothing but lists."""
    lblocks, llists = model['v5']['rng']
    for b in lblocks:
        mine = [x for x in llists if lblocks[x['block']] is b]
        total = sum(x['length'] for x in mine)
        if b['end'] - (b['table_offset'] + b['offset_count'] * (8 if b['is64'] else 4)) != total:
            return True
    return False


# ---- classification matrix ------------------------------------------------------------------------------------

LOC_NAMES = ['DW_AT_location', 'DW_AT_frame_base', 'DW_AT_data_member_location', 'DW_AT_string_length', 'DW_AT_return_addr', 'DW_AT_static_link',
             'DW_AT_use_location', 'DW_AT_vtable_elem_location', 'DW_AT_segment']
OTHER_NAMES = ['DW_AT_name', 'DW_AT_byte_size', 'DW_AT_ranges', 'DW_AT_stmt_list', 'DW_AT_const_value', 'DW_AT_decl_line']


def _matrix_gen():
    for v in (2, 3, 4, 5):
        for name in LOC_NAMES:
            if v < 4:
                for f in ('DW_FORM_block1', 'DW_FORM_block2', 'DW_FORM_block4', 'DW_FORM_block'):
                    yield [v, name, f, 'expr']
                if not (name == 'DW_AT_data_member_location' and v == 3):
                    for f in ('DW_FORM_data4', 'DW_FORM_data8'):
                        yield [v, name, f, 'list']
            else:
                yield [v, name, 'DW_FORM_exprloc', 'expr']
                yield [v, name, 'DW_FORM_sec_offset', 'list']
                if v == 5:
                    yield [v, name, 'DW_FORM_loclistx', 'list']
            if name == 'DW_AT_data_member_location' and v >= 3:
                for f in ('DW_FORM_data1', 'DW_FORM_data2', 'DW_FORM_udata', 'DW_FORM_sdata') + (('DW_FORM_data4', 'DW_FORM_data8') if v >= 4 else ()):
                    yield [v, name, f, 'none']
        for name in OTHER_NAMES:
            for f in ('DW_FORM_data4', 'DW_FORM_block1', 'DW_FORM_string', 'DW_FORM_udata') + (('DW_FORM_sec_offset', 'DW_FORM_exprloc') if v >= 4 else ()):
                if name == 'DW_AT_const_value' and f in ('DW_FORM_sec_offset',):
                    continue
                if f == 'DW_FORM_exprloc' and name != 'DW_AT_name':
                    continue        # exprloc on these attributes is not defined by the standard
                yield [v, name, f, 'none']


def _matrix_check(desc):
    v, name, form, want = desc
    from elftools.dwarf.die import AttributeValue
    from elftools.dwarf.locationlists import LocationParser
    attr = AttributeValue(name=name, form=form, value=[0x91, 0x68] if 'block' in form or 'exprloc' in form else 0x10, raw_value=0x10, offset=0, indirection_length=0)
    has = guarded(LocationParser.attribute_has_location, attr, v)
    fails = []
    if bool(has) != (want != 'none') or isinstance(has, Raised):
        fails.append(('attribute_has_location(%s, %s, v%d)' % (name, form, v), want != 'none', has))
    elif want != 'none':
        class FakeLists:
            def get_location_list_at_offset(self, off, die=None):
                return ['LIST', off]
        g = guarded(lambda: LocationParser(FakeLists()).parse_from_attribute(attr, v))
        kind = 'expr' if type(g).__name__ == 'LocationExpr' else ('list' if isinstance(g, list) and g[:1] == ['LIST'] else repr(g))
        if kind != want:
            fails.append(('parse_from_attribute(%s, %s, v%d)' % (name, form, v), want, kind))
    return fails, want != 'none', (want, bool(has) if not isinstance(has, Raised) else repr(has))


def spaces(tier, seed):
    global SEED
    SEED = seed
    k = 3 if tier == 'quick' else 5
    return [
        ChoiceSpace('loc-and-range-lists', run, k, rule='free: order x address size x format; picks: sections {v5, v4, both} x lists {2,1,3} x entry set {typical, empty, base then pairs, start forms, '
                    'indexed forms, every kind} x expression length {2,0,1,300} x LEB width {min,2,10} x offset_count {all,0} x unit blocks {1, 2 mixed 32/64} x gap x view pairs x reference form '
                    '{sec_offset, loclistx/rnglistx, data4/8} x pre-v5 CU version {4,3,2} x trailing bytes; by attribute, by offset, by index, by enumeration (DIE-driven and block-driven)'),
        ListSpace('classification-matrix', _matrix_gen, _matrix_check, nparts=4, rule='complete product of location-class attribute names x forms x versions 2..5 restricted to combinations the standards define '
                  '(block forms < v4, data4/8 < v4, exprloc / sec_offset >= v4, loclistx v5, constant forms of data_member_location >= v3) plus non-location attributes'),
    ]
