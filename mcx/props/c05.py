"""C05 — line-number programs execute to the rows the DWARF state machine prescribes.

ALL opcode sequences up to length L over a ~34-letter alphabet (standard, extended incl. unknown
length-skipped, special opcodes; operands at boundaries) x header variants (default, every single
deviation; pairs in thorough) x byte order x DWARF format x address size.  Two programs are laid
out back to back followed by a sentinel; two units designate them in swapped order, a third has
no statement list.  Oracle: reference state machine (mcx/ref/lineprog.py, DWARF 5 6.2.5) on all
12 registers, decoded header tables, exact consumption (the second program decodes to its own rows).
"""
import itertools

from mcx import core, dwarfgen as dg
from mcx.core import BulkSpace, BulkResult, guarded, Raised
from mcx.dwarfgen import F, TAG, AT, Abbrev, Die, Unit, DP
from mcx.observe import plain
from mcx.ref import leb, lineprog as LP, names as nm

ID = 'C05'
LEVEL = 'model_checking'
ASSUMPTIONS = ['line and address arithmetic does not wrap within the generated programs (values chosen to stay inside the address width)',
               'every generated program is closed with DW_LNE_end_sequence', 'DW_LNCT content types are the five standard ones']
SEED = 0


class StrTabs:
    def __init__(self):
        self.str = bytearray(b'\0')
        self.line_str = bytearray(b'\0')

    def add(self, s, table):
        buf = self.str if table == 'str' else self.line_str
        o = len(buf)
        buf += s + b'\0'
        return o


def header_variants(tier):
    V = [('default', {})]
    one = [('version=2', dict(version=2)), ('version=3', dict(version=3)),
           ('opcode_base=10', dict(opcode_base=10)), ('opcode_base=4', dict(opcode_base=4)), ('opcode_base=1', dict(opcode_base=1)),
           ('opcode_base=14', dict(opcode_base=14, std_lengths=LP.STD_LENGTHS + [0])), ('opcode_base=14/2ops', dict(opcode_base=14, std_lengths=LP.STD_LENGTHS + [2])),
           ('opcode_base=20', dict(opcode_base=20, std_lengths=LP.STD_LENGTHS + [2, 0, 1, 0, 3, 0, 1])),
           ('line_base=-128', dict(line_base=-128)), ('line_base=-1', dict(line_base=-1)), ('line_base=0', dict(line_base=0)), ('line_base=127', dict(line_base=127)),
           ('line_range=1', dict(line_range=1)), ('line_range=12', dict(line_range=12)), ('line_range=255', dict(line_range=255)),
           ('min_inst=4', dict(min_inst=4)), ('max_ops=4', dict(max_ops=4)), ('default_is_stmt=0', dict(default_is_stmt=0)),
           ('dirs=0', dict(dirs=())), ('dirs=3', dict(dirs=(b'/a', b'b/c', b'\xc3\xa9'))), ('files=0', dict(files=())),
           ('files=3', dict(files=((b'a.c', 0, 0, 0), (b'b.h', 1, 0x5f000000, 300), (b'c' * 70, 2, 1, (1 << 32) + 5)))),
           ('header_slack=3', dict(slack=3)),
           ('files=130', dict(dirs=tuple(b'/d%d' % i for i in range(130)), files=tuple((b'f%d.c' % i, i, 100 + i, 64 + i) for i in range(130))))]
    v5base = dict(version=5, v5_dirs=[{'path': b'/comp/dir'}], v5_files=[{'path': b'a.c', 'directory_index': 0}])
    v5 = [('v5', {}), ('v5/path=line_strp', dict(dir_format=(('path', 'line_strp'),), file_format=(('path', 'line_strp'), ('directory_index', 'udata')))),
          ('v5/path=strp', dict(dir_format=(('path', 'strp'),), file_format=(('path', 'strp'), ('directory_index', 'udata')))),
          ('v5/dir=data1', dict(file_format=(('path', 'string'), ('directory_index', 'data1')))),
          ('v5/dir=data2', dict(file_format=(('path', 'string'), ('directory_index', 'data2')))),
          ('v5/md5', dict(file_format=(('path', 'string'), ('directory_index', 'udata'), ('MD5', 'data16')),
                          v5_files=[{'path': b'a.c', 'directory_index': 0, 'MD5': bytes(range(16))}, {'path': b'b.c', 'directory_index': 1, 'MD5': b'\xff' * 16}],
                          v5_dirs=[{'path': b'/comp/dir'}, {'path': b'inc'}])),
          ('v5/ts+size=udata', dict(file_format=(('path', 'string'), ('directory_index', 'udata'), ('timestamp', 'udata'), ('size', 'udata')),
                                    v5_files=[{'path': b'a.c', 'directory_index': 0, 'timestamp': 0x5f000000, 'size': 300}])),
          ('v5/ts=data4,size=data8', dict(file_format=(('path', 'string'), ('directory_index', 'udata'), ('timestamp', 'data4'), ('size', 'data8')),
                                          v5_files=[{'path': b'a.c', 'directory_index': 0, 'timestamp': 0xffffffff, 'size': (1 << 64) - 1}])),
          ('v5/ts=block', dict(file_format=(('path', 'string'), ('directory_index', 'udata'), ('timestamp', 'block')),
                               v5_files=[{'path': b'a.c', 'directory_index': 0, 'timestamp': b'\x01\x02\x03'}])),
          ('v5/dirs=0,files=0', dict(v5_dirs=[], v5_files=[])), ('v5/3 files', dict(v5_dirs=[{'path': b'/d0'}, {'path': b'd1'}, {'path': b'd2'}],
                                                                                  v5_files=[{'path': b'f%d.c' % i, 'directory_index': i} for i in range(3)])),
          ('v5/max_ops=4', dict(max_ops=4)), ('v5/address_size_field=4', dict(address_size=4)),
          # counts are ULEB128: 128+ entries need a second byte (a one-byte read glues the continuation byte onto the first path)
          ('v5/dirs=130', dict(v5_dirs=[{'path': b'/d%03d' % i} for i in range(130)], v5_files=[{'path': b'a.c', 'directory_index': 129}, {'path': b'b.c', 'directory_index': 0}])),
          ('v5/files=300', dict(v5_dirs=[{'path': b'/d0'}, {'path': b'd1'}], v5_files=[{'path': b'f%d.c' % i, 'directory_index': i % 2} for i in range(300)])),
          # the same FORM sequence carrying different content types: in one header vs the next (a parser memoised per form tuple mixes the fields up)
          ('v5/size-before-dir', dict(file_format=(('path', 'string'), ('size', 'udata'), ('directory_index', 'udata')),
                                      v5_dirs=[{'path': b'/d0'}, {'path': b'd1'}], v5_files=[{'path': b'a.c', 'size': 300, 'directory_index': 1}, {'path': b'b.c', 'size': 0, 'directory_index': 0}])),
          ('v5/second-program-permuted', dict(file_format=(('path', 'string'), ('directory_index', 'udata'), ('timestamp', 'udata'), ('size', 'udata')),
                                              v5_files=[{'path': b'a.c', 'directory_index': 0, 'timestamp': 77, 'size': 300}],
                                              second=dict(file_format=(('path', 'string'), ('directory_index', 'udata'), ('size', 'udata'), ('timestamp', 'udata')),
                                                          v5_files=[{'path': b'b.c', 'directory_index': 0, 'size': 300, 'timestamp': 77}]))),
          ('v5/second-program-dir-format', dict(dir_format=(('path', 'string'), ('timestamp', 'udata')), v5_dirs=[{'path': b'/d0', 'timestamp': 9}],
                                                second=dict(dir_format=(('path', 'string'), ('size', 'udata')), v5_dirs=[{'path': b'/d0', 'size': 9}]))),
          ('v5/formats=3+4', dict(dir_format=(('path', 'string'), ('timestamp', 'udata'), ('size', 'udata')),
                                  v5_dirs=[{'path': b'/d0', 'timestamp': 200, 'size': 0x4000}],
                                  file_format=(('path', 'string'), ('directory_index', 'udata'), ('timestamp', 'udata'), ('size', 'udata')),
                                  v5_files=[{'path': b'a.c', 'directory_index': 0, 'timestamp': 200, 'size': 100}]))]
    for n, d in one:
        V.append((n, d))
    for n, d in v5:
        x = dict(v5base)
        x.update(d)
        V.append((n, x))
    if tier == 'thorough':
        # pairs of deviations (v2-4 family)
        for (n1, d1), (n2, d2) in itertools.combinations(one, 2):
            if set(d1) & set(d2):
                continue
            x = dict(d1)
            x.update(d2)
            V.append((n1 + '+' + n2, x))
    return V


def letters(h, dp):
    a = dp.addr
    hi = (1 << (8 * a)) - 0x100000
    L = [('copy', b'\x01')]
    if h.opcode_base <= 255:
        L.append(('special_min', bytes([h.opcode_base])))
    if h.opcode_base + h.line_range <= 255:
        L.append(('special_adv1', bytes([h.opcode_base + h.line_range])))
    L.append(('special_255', b'\xff'))
    L += [('advance_pc_0', b'\x02\x00'), ('advance_pc_1', b'\x02\x01'), ('advance_pc_300', b'\x02' + leb.uleb(300)), ('advance_pc_3', b'\x02\x03'),
          ('advance_line_1', b'\x03\x01'), ('advance_line_m1', b'\x03\x7f'), ('advance_line_300', b'\x03' + leb.sleb(300)),
          ('set_file_2', b'\x04\x02'), ('set_column_7', b'\x05\x07'), ('negate_stmt', b'\x06'), ('set_basic_block', b'\x07'), ('const_add_pc', b'\x08'),
          ('fixed_advance_pc_1', b'\x09' + dp.u(2, 1)), ('fixed_advance_pc_ffff', b'\x09' + dp.u(2, 0xffff)),
          ('set_prologue_end', b'\x0a'), ('set_epilogue_begin', b'\x0b'), ('set_isa_3', b'\x0c\x03'),
          ('end_sequence', b'\x00\x01\x01'), ('set_address_1000', b'\x00' + leb.uleb(1 + a) + b'\x02' + dp.address(0x1000)),
          ('set_address_high', b'\x00' + leb.uleb(1 + a) + b'\x02' + dp.address(hi)),
          ('set_discriminator_5', b'\x00\x02\x04\x05'), ('unknown_ext_0', b'\x00\x01\x80'), ('unknown_ext_3', b'\x00\x04\x80\xaa\xbb\xcc'),
          ('set_discriminator_padded_len', b'\x00\x04\x04\x85\x80\x00'),
          # extended opcodes whose LENGTH needs more than one ULEB128 byte: padded (0x83 0x00 = 3) and genuinely long (200 operand bytes)
          ('unknown_ext_len_2bytes', b'\x00\x83\x00\x80\x0d\x01'), ('unknown_ext_200', b'\x00' + leb.uleb(201) + b'\x80' + bytes([1, 2, 3, 13] * 50))]
    # a standard opcode number >= opcode_base is a special opcode (covered by the special letters): drop its operand-carrying letter
    L = [(n, b) for n, b in L if not (1 <= b[0] <= 12 and b[0] >= h.opcode_base)]
    if h.version < 5:
        L.append(('define_file', b'\x00' + leb.uleb(1 + 6 + 3) + b'\x03' + b'def.c\0' + b'\x01\x02\x03'))
        L.append(('define_file_long', b'\x00' + leb.uleb(1 + 131 + 3) + b'\x03' + b'd' * 130 + b'\0' + b'\x01\x02\x03'))
    if h.opcode_base > 13:
        n = h.std_lengths[12]
        L.append(('unknown_std_13', b'\x0d' + b''.join(leb.uleb(300 + k) for k in range(n))))
    return L


PARAMS = [(le, fmt, addr) for le in (True, False) for fmt in (32, 64) for addr in (8, 4)]
PROG_B = ['set_address_1000', 'special_adv1', 'advance_pc_1', 'copy']


def build_case(hv, seq, pi, swap):
    le, fmt, addr = PARAMS[pi]
    hd = dict(hv)
    second = hd.pop('second', None)     # header overrides for the second program of the same section
    version = hd.get('version', 4)
    dp = DP(le, fmt, addr, version)
    h = LP.Header(**hd)
    hB = LP.Header(**dict(hd, **second)) if second else h
    LT = dict(letters(h, dp))
    progA = b''.join(LT[x] for x in seq) + LT['end_sequence']
    progB = b''.join(LT.get(x, b'\x01') for x in PROG_B) + LT['end_sequence']
    st = StrTabs()
    unitA, expA = LP.encode(h, progA, dp, st)
    unitB, expB = LP.encode(hB, progB, dp, st)
    line = unitA + unitB + b'\xff' * 8
    offA, offB = 0, len(unitA)
    form = F['sec_offset'] if version >= 4 else (F['data4'] if fmt == 32 else F['data8'])
    a1 = Abbrev(1, TAG['compile_unit'], False, [(AT['name'], F['string'], None), (AT['stmt_list'], form, None)])
    a2 = Abbrev(2, TAG['compile_unit'], False, [(AT['name'], F['string'], None)])
    first, second = (offB, offA) if swap else (offA, offB)
    units = [Unit(dp, Die(a1, [b'cu0', first]), abbrev_key='s'), Unit(dp, Die(a1, [b'cu1', second]), abbrev_key='s'), Unit(dp, Die(a2, [b'cu2']), abbrev_key='s')]
    asm = dg.Assembly(units, le=le)
    secs = asm.assemble()
    secs = {k: secs[k] for k in ('.debug_info', '.debug_abbrev')}
    secs['.debug_line'] = line
    secs['.debug_str'] = bytes(st.str)
    secs['.debug_line_str'] = bytes(st.line_str)
    progs = [(progB, expB, hB), (progA, expA, h)] if swap else [(progA, expA, h), (progB, expB, hB)]
    return secs, dp, h, progs


def check_case(hv, seq, pi, swap):
    secs, dp, _h, progs = build_case(hv, seq, pi, swap)
    data = secs['.debug_line'] + secs['.debug_info']
    fails = []
    dw = guarded(dg.make_dwarfinfo, secs, dp.le, dp.addr)
    if isinstance(dw, Raised):
        return [('DWARFInfo()', 'constructs', dw)], data, repr(dw), 0
    cus = guarded(lambda: list(dw.iter_CUs()))
    if isinstance(cus, Raised) or len(cus) != 3:
        return [('iter_CUs()', 3, cus)], data, repr(cus), 0
    outs = []
    nrows = 0
    for ci, (prog, exp, h) in enumerate(progs):
        lp = guarded(dw.line_program_for_CU, cus[ci])
        p = 'cu%d.lineprogram' % ci
        if isinstance(lp, Raised) or lp is None:
            fails.append((p, 'LineProgram', lp))
            continue
        hdr = guarded(lambda: plain(lp.header))
        if isinstance(hdr, Raised):
            fails.append((p + '.header', 'dict', hdr))
            continue
        rows_exp, files_def = LP.run(prog, h, dp.addr, dp.le, v5=(h.version >= 5))
        ents = guarded(lp.get_entries)
        if isinstance(ents, Raised):
            fails.append((p + '.get_entries()', '%d rows' % len(rows_exp), ents))
            continue
        got = [tuple((bool(getattr(e.state, r)) if r in ('is_stmt', 'basic_block', 'end_sequence', 'prologue_end', 'epilogue_begin') else getattr(e.state, r))
                     for r in LP.REGS) for e in ents if e.state is not None]
        outs.append(got)
        nrows += len(got)
        if got != rows_exp:
            k = next((i for i in range(min(len(got), len(rows_exp))) if got[i] != rows_exp[i]), min(len(got), len(rows_exp)))
            if k < len(got) and k < len(rows_exp):
                reg = next(r for r, a, b in zip(LP.REGS, got[k], rows_exp[k]) if a != b)
                fails.append(('%s.rows[%d].%s' % (p, k, reg), dict(zip(LP.REGS, rows_exp[k]))[reg], dict(zip(LP.REGS, got[k]))[reg]))
            else:
                fails.append((p + ' row count', len(rows_exp), len(got)))
        # header
        hdr2 = guarded(lambda: plain(lp.header))     # after decoding (define_file appends)
        for k in ('unit_length', 'version', 'header_length', 'minimum_instruction_length', 'maximum_operations_per_instruction', 'default_is_stmt', 'line_base',
                  'line_range', 'opcode_base', 'standard_opcode_lengths'):
            if hdr.get(k) != exp[k]:
                fails.append(('%s.header.%s' % (p, k), exp[k], hdr.get(k)))
        if h.version >= 5:
            for k in ('address_size', 'segment_selector_size'):
                if hdr.get(k) != exp[k]:
                    fails.append(('%s.header.%s' % (p, k), exp[k], hdr.get(k)))
            for k in ('directories', 'file_names'):
                g = hdr.get(k)
                if [dict(x) for x in (g or [])] != exp[k]:
                    fails.append(('%s.header.%s' % (p, k), exp[k], g))
            for k in ('directory_entry_format', 'file_name_entry_format'):
                g = hdr.get(k) or []
                ok = len(g) == len(exp[k]) and all(not nm.check('DW_LNCT', '*', c, x.get('content_type')) and not nm.check('DW_FORM', '*', f, x.get('form'))
                                                   for (c, f), x in zip(exp[k], g))
                if not ok:
                    fails.append(('%s.header.%s' % (p, k), exp[k], g))
            if exp['directories']:
                g = hdr.get('include_directory')
                if list(g or []) != [d['DW_LNCT_path'] for d in exp['directories']]:
                    fails.append((p + '.header.include_directory', [d['DW_LNCT_path'] for d in exp['directories']], g))
            if exp['file_names']:
                g = hdr.get('file_entry')
                e = [dict(name=d.get('DW_LNCT_path'), dir_index=d.get('DW_LNCT_directory_index'), mtime=d.get('DW_LNCT_timestamp'), length=d.get('DW_LNCT_size'))
                     for d in exp['file_names']]
                if [dict(x) for x in (g or [])] != e:
                    fails.append((p + '.header.file_entry', e, g))
        else:
            if hdr.get('include_directory') != exp['include_directory']:
                fails.append((p + '.header.include_directory', exp['include_directory'], hdr.get('include_directory')))
            if hdr.get('file_entry') != exp['file_entry']:
                fails.append((p + '.header.file_entry', exp['file_entry'], hdr.get('file_entry')))
            if not isinstance(hdr2, Raised) and hdr2.get('file_entry') != exp['file_entry'] + files_def:
                fails.append((p + '.header.file_entry after DW_LNE_define_file', exp['file_entry'] + files_def, hdr2.get('file_entry')))
        e2 = guarded(lp.get_entries)
        if e2 is not ents and (isinstance(e2, Raised) or [x.state is None for x in e2] != [x.state is None for x in ents]):
            fails.append((p + '.get_entries() repeated', 'same entries', e2))
    g = guarded(dw.line_program_for_CU, cus[2])
    if g is not None:
        fails.append(('cu2.lineprogram', None, g))
    return fails, data, repr(outs), nrows


def _cases(tier):
    """(descriptor, hv, seq, pi, swap) in a deterministic order"""
    V = header_variants(tier)
    maxlen_default = 3 if tier == 'quick' else 4
    maxlen_other = 2 if tier == 'quick' else 3
    idx = 0
    for vi, (vname, hv) in enumerate(V):
        h = LP.Header(**{k: v for k, v in hv.items() if k != 'second'})
        names = [n for n, _ in letters(h, DP(True, 32, 8, h.version))]
        ml = maxlen_default if vname == 'default' else (maxlen_other if '+' not in vname else 2)
        params = range(8) if (vname == 'default' or tier == 'thorough' and '+' not in vname) else (0, 7, 2, 5)
        if vname == 'default' and ml >= 4:
            params = (0, 7)
        for n in range(0, ml + 1):
            for seq in itertools.product(names, repeat=n):
                for pi in params:
                    idx += 1
                    yield {'header': vname, 'seq': list(seq), 'param': pi, 'swap': bool(idx & 1)}, hv, seq, pi, bool(idx & 1)


def _make_part(tier):
    def fn(part, nparts):
        r = BulkResult()
        outs = set()
        for i, (desc, hv, seq, pi, swap) in enumerate(_cases(tier)):
            if i % nparts != part:
                continue
            fails, data, out, nrows = check_case(hv, seq, pi, swap)
            r.evaluations += 1
            r.states.add(core.digest(data))
            outs.add(core.digest(out))
            if nrows > 2:
                r.nontrivial += 1
            if fails:
                f = fails[0]
                r.fails.append((desc, f[0], f[1], f[2]))
            if r.sample is None and part == 3 and len(seq) == 3:
                r.sample = {'case': desc, 'rows_decoded': nrows}
        r.outcomes = outs
        return r
    return fn


def _replay(desc):
    for tier in ('quick', 'thorough'):
        V = dict(header_variants(tier))
        if desc['header'] in V:
            return check_case(V[desc['header']], tuple(desc['seq']), desc['param'], desc['swap'])[0]
    raise core.HarnessError('unknown header variant %r' % desc['header'])


def spaces(tier, seed):
    global SEED
    SEED = seed
    nv = len(header_variants(tier))
    return [BulkSpace('opcode-sequences', _make_part(tier), 256, _replay,
                      rule='ALL sequences over the opcode alphabet (~34 letters: copy, 3 special opcodes, advance_pc x4, advance_line x3, set_file/column, negate_stmt, basic_block, const_add_pc, '
                           'fixed_advance_pc x2, prologue_end, epilogue_begin, set_isa, end_sequence, set_address x2, set_discriminator x2, unknown extended x2, define_file, unknown standard opcode) of length '
                           '<= %s under the default header and <= %s under each of %d header variants (version 2-5, opcode_base 1..20, line_base, line_range, min_inst, max_ops, default_is_stmt, directory/file '
                           'tables, v5 entry formats, header slack%s), x byte order x format x address size; each case decodes two adjacent programs through swapped unit designations; non-trivial = more than '
                           '2 rows' % ((3, 2, nv, '') if tier == 'quick' else (4, 3, nv, '; all compatible pairs of deviations')))]
