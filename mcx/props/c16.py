"""C16 — primitive decoders invert the standard encodings and consume exact lengths.

Complete products (E3 over finite spaces): every byte string <= 3 as LEB128 prefix,
boundary values at every padding and truncation, 24-bit integers, every fixed-width
integer struct, C strings of every length 0..300, length-prefixed blocks, the DWARF
initial-length field, RepeatUntilExcluding.  Oracle: arithmetic definitions
(DWARF5 7.6, int.from_bytes); value AND stream position afterwards.
"""
import io
import struct

from mcx import core
from mcx.core import BulkSpace, BulkResult, ListSpace, guarded, Raised
from mcx.ref import leb

ID = 'C16'
LEVEL = 'model_checking'
ASSUMPTIONS = ['CPython int arithmetic and int.from_bytes are the arithmetic reference',
               'primitives are reached through struct_parse on the constructs that DWARFStructs/ELFStructs expose']

TAIL = b'\x55\xaa\x00'


def _lib():
    from elftools.common.utils import struct_parse, parse_cstring_from_stream
    from elftools.common.exceptions import ELFParseError
    from elftools.dwarf.structs import DWARFStructs
    from elftools.elf.structs import ELFStructs
    return struct_parse, parse_cstring_from_stream, ELFParseError, DWARFStructs, ELFStructs


def _decoders():
    sp, _, _, DS, _ = _lib()
    ds = DS(little_endian=True, dwarf_format=32, address_size=4, dwarf_version=4)
    return {'uleb': (ds.Dwarf_uleb128(''), leb.uleb_decode), 'sleb': (ds.Dwarf_sleb128(''), leb.sleb_decode)}


# ---- 1. every byte string of length <= 3 (+ tail) and its truncated form -----------

def _leb3_part(part, nparts):
    struct_parse, _, ELFParseError, _, _ = _lib()
    r = BulkResult()
    decs = _decoders()
    b0 = part
    # records: [b0], [b0,b1], [b0,b1,b2] each followed by TAIL
    recs = [bytes([b0])]
    recs += [bytes([b0, b1]) for b1 in range(256)]
    recs += [bytes([b0, b1, b2]) for b1 in range(256) for b2 in range(256)]
    buf = bytearray()
    offs = []
    for s in recs:
        offs.append(len(buf))
        buf += s
        buf += TAIL
    stream = io.BytesIO(bytes(buf))
    data = bytes(buf)
    outcomes = set()
    for dname, (con, ref) in decs.items():
        for s, o in zip(recs, offs):
            exp = ref(data, o)
            try:
                v = struct_parse(con, stream, o)
                got = (v, stream.tell())
            except Exception as e:      # noqa: BLE001
                got = Raised(e)
            r.evaluations += 1
            outcomes.add((dname, got[0], got[1] - o) if not isinstance(got, Raised) else got.type)
            if got != exp:
                r.fails.append(({'decoder': dname, 'bytes': s.hex(), 'tail': TAIL.hex()}, 'value,tell', exp, got))
            # truncated: the string alone, when every byte carries the continuation bit
            if all(b & 0x80 for b in s):
                st2 = io.BytesIO(s)
                try:
                    v = struct_parse(con, st2)
                    got2 = ('returned', v)
                except ELFParseError:
                    got2 = 'ELFParseError'
                except Exception as e:  # noqa: BLE001
                    got2 = Raised(e)
                r.evaluations += 1
                if got2 != 'ELFParseError':
                    r.fails.append(({'decoder': dname, 'bytes': s.hex(), 'tail': ''}, 'truncated', 'ELFParseError', got2))
    r.n_states = r.evaluations
    r.nontrivial = r.evaluations
    r.n_outcomes = len(outcomes)
    if part == 0x85:
        r.sample = {'decoder': 'sleb', 'bytes': '85ff7f', 'tail': TAIL.hex(), 'expected(value,next_pos_rel)': list(leb.sleb_decode(bytes.fromhex('85ff7f') + TAIL))}
    return r


def _leb_replay(desc):
    struct_parse, _, ELFParseError, _, _ = _lib()
    con, ref = _decoders()[desc['decoder']]
    s = bytes.fromhex(desc['bytes'])
    tail = bytes.fromhex(desc['tail'])
    data = s + tail
    exp = ref(data, 0)
    st = io.BytesIO(data)
    got = guarded(lambda: (struct_parse(con, st), st.tell()))
    if exp is None:
        if isinstance(got, Raised) and got.isa('ELFParseError'):
            return []
        return [('truncated', 'ELFParseError', got)]
    return [] if got == exp else [('value,tell', exp, got)]


# ---- 2. thorough: all 4-byte strings whose first three bytes continue ----------------

def _leb4_part(part, nparts):
    struct_parse = _lib()[0]
    r = BulkResult()
    decs = _decoders()
    b0 = 0x80 | part
    nout = 0
    for dname, (con, ref) in decs.items():
        for b1 in range(0x80, 0x100):
            buf = bytearray()
            for b2 in range(0x80, 0x100):
                for b3 in range(256):
                    buf += bytes([b0, b1, b2, b3]) + TAIL
            data = bytes(buf)
            stream = io.BytesIO(data)
            step = 4 + len(TAIL)
            seen = set()
            for o in range(0, len(data), step):
                exp = ref(data, o)
                try:
                    got = (struct_parse(con, stream, o), stream.tell())
                except Exception as e:      # noqa: BLE001
                    got = Raised(e)
                r.evaluations += 1
                if got != exp:
                    r.fails.append(({'decoder': dname, 'bytes': data[o:o + 4].hex(), 'tail': TAIL.hex()}, 'value,tell', exp, got))
                else:
                    seen.add(got[0])
            nout += len(seen)
    r.n_states = r.evaluations
    r.nontrivial = r.evaluations
    r.n_outcomes = nout
    if part == 1:
        r.sample = {'decoder': 'uleb', 'bytes': '81ffff7f', 'tail': TAIL.hex()}
    return r


# ---- 3. boundary values, canonical and padded, every truncation ----------------------

def _boundary_values():
    vs = {0, 1, -1, 2, -2}
    for n in (6, 7, 13, 14, 31, 32, 63, 64):
        for d in (-1, 0, 1):
            vs.add((1 << n) + d)
            vs.add(-(1 << n) + d)
    return sorted(vs, key=lambda v: (abs(v), v))


def _lebval_gen():
    for v in _boundary_values():
        for dec in ('uleb', 'sleb'):
            if dec == 'uleb' and v < 0:
                continue
            for pad in (0, 2, 5, 10, 11, 20):
                yield {'decoder': dec, 'value': v, 'pad': pad}


def _lebval_check(desc):
    struct_parse, _, ELFParseError, _, _ = _lib()
    con, ref = _decoders()[desc['decoder']]
    enc = (leb.uleb if desc['decoder'] == 'uleb' else leb.sleb)(desc['value'], desc['pad'])
    fails = []
    for tail in (TAIL, b'\xff\xff', b''):
        st = io.BytesIO(b'\x99' + enc + tail)
        got = guarded(lambda: (struct_parse(con, st, 1), st.tell()))
        if got != (desc['value'], 1 + len(enc)):
            fails.append(('full[tail=%s]' % tail.hex(), (desc['value'], 1 + len(enc)), got))
    for cut in range(len(enc)):
        st = io.BytesIO(enc[:cut])
        got = guarded(lambda: struct_parse(con, st))
        if not (isinstance(got, Raised) and got.isa('ELFParseError')):
            fails.append(('truncated@%d' % cut, 'ELFParseError', got))
    return fails, True, (desc['value'], len(enc)), enc + desc['decoder'].encode()


# ---- 4. 24-bit integers ---------------------------------------------------------------

def _int24_values_quick():
    vs = set()
    for i in range(3):
        for a in range(256):
            vs.add(a << (8 * i))
            for j in range(i + 1, 3):
                for b in (1, 0x7f, 0x80, 0xff):
                    vs.add((a << (8 * i)) | (b << (8 * j)))
    for n in range(25):
        for d in (-1, 0, 1):
            v = (1 << n) + d
            if 0 <= v < 1 << 24:
                vs.add(v)
    return sorted(vs)


def _int24_part_factory(all_values):
    def fn(part, nparts):
        struct_parse, _, _, DS, _ = _lib()
        r = BulkResult()
        vals = range(part, 1 << 24, nparts) if all_values else _int24_values_quick()[part::nparts]
        seen = 0
        for le in (True, False):
            con = DS(le, 32, 4, 5).Dwarf_uint24('')
            order = 'little' if le else 'big'
            buf = bytearray()
            vl = list(vals)
            for v in vl:
                buf += v.to_bytes(3, order) + b'\xee'
            st = io.BytesIO(bytes(buf))
            for i, v in enumerate(vl):
                try:
                    got = (struct_parse(con, st, 4 * i), st.tell())
                except Exception as e:      # noqa: BLE001
                    got = Raised(e)
                r.evaluations += 1
                if got != (v, 4 * i + 3):
                    r.fails.append(({'kind': 'int24', 'le': le, 'value': v}, 'value,tell', (v, 4 * i + 3), got))
                else:
                    seen += 1
        r.n_states = r.evaluations
        r.nontrivial = r.evaluations
        r.n_outcomes = seen
        if part == 0:
            r.sample = {'kind': 'int24', 'le': False, 'value': 0x123456, 'bytes': '123456'}
        return r
    return fn


def _int24_replay(desc):
    struct_parse, _, _, DS, _ = _lib()
    con = DS(desc['le'], 32, 4, 5).Dwarf_uint24('')
    enc = desc['value'].to_bytes(3, 'little' if desc['le'] else 'big')
    st = io.BytesIO(enc + b'\xee')
    got = guarded(lambda: (struct_parse(con, st), st.tell()))
    return [] if got == (desc['value'], 3) else [('value,tell', (desc['value'], 3), got)]


# ---- 5. every fixed-width integer struct --------------------------------------------

_DW_INTS = [('Dwarf_uint8', 1, False), ('Dwarf_uint16', 2, False), ('Dwarf_uint24', 3, False), ('Dwarf_uint32', 4, False),
            ('Dwarf_uint64', 8, False), ('Dwarf_int8', 1, True), ('Dwarf_int16', 2, True),
            ('Dwarf_int32', 4, True), ('Dwarf_int64', 8, True),
            ('Dwarf_offset', 'fmt', False), ('Dwarf_length', 'fmt', False), ('Dwarf_target_addr', 'addr', False)]
_ELF_INTS = [('Elf_byte', 1, False), ('Elf_half', 2, False), ('Elf_word', 4, False), ('Elf_word64', 8, False),
             ('Elf_addr', 'cls', False), ('Elf_offset', 'cls', False), ('Elf_sword', 4, True),
             ('Elf_xword', 'cls', False), ('Elf_sxword', 'cls', True)]


def _fixed_gen():
    for le in (True, False):
        for fmt in (32, 64):
            for addr in (4, 8):
                for name, w, signed in _DW_INTS:
                    width = w if isinstance(w, int) else (fmt // 8 if w == 'fmt' else addr)
                    yield {'family': 'dwarf', 'le': le, 'fmt': fmt, 'addr': addr, 'name': name, 'width': width, 'signed': signed}
        for cls in (32, 64):
            for name, w, signed in _ELF_INTS:
                width = w if isinstance(w, int) else cls // 8
                yield {'family': 'elf', 'le': le, 'cls': cls, 'name': name, 'width': width, 'signed': signed}


def _fixed_check(desc):
    struct_parse, _, _, DS, ES = _lib()
    if desc['family'] == 'dwarf':
        con = getattr(DS(desc['le'], desc['fmt'], desc['addr'], 4), desc['name'])('')
    else:
        es = ES(little_endian=desc['le'], elfclass=desc['cls'])
        es.create_basic_structs()
        con = getattr(es, desc['name'])('')
    w = desc['width']
    order = 'little' if desc['le'] else 'big'
    fails = []
    raws = {0, 1, (1 << (8 * w - 1)) - 1, 1 << (8 * w - 1), (1 << (8 * w)) - 1, 0x0102030405060708 & ((1 << 8 * w) - 1),
            0x80 << (8 * (w - 1)) | 1 if w > 1 else 0x81}
    outs = []
    for raw in sorted(raws):
        enc = raw.to_bytes(w, order)
        exp = int.from_bytes(enc, order, signed=desc['signed'])
        st = io.BytesIO(b'\x00\x00\x00' + enc + b'\xa5\xa5')
        got = guarded(lambda: (struct_parse(con, st, 3), st.tell()))
        outs.append(got)
        if got != (exp, 3 + w):
            fails.append(('value,tell[%s]' % enc.hex(), (exp, 3 + w), got))
        for cut in range(w):
            st = io.BytesIO(enc[:cut])
            got = guarded(lambda: struct_parse(con, st))
            if not (isinstance(got, Raised) and got.isa('ELFParseError')):
                fails.append(('truncated[%s]@%d' % (enc.hex(), cut), 'ELFParseError', got))
    return fails, True, outs


# ---- 6. NUL-terminated strings --------------------------------------------------------

def _cstr_gen():
    for n in range(0, 301):
        for term in (True, False):
            for how in ('parse_cstring_from_stream', 'CString'):
                for pos in (0, 37):
                    yield {'len': n, 'terminated': term, 'via': how, 'pos': pos}


def _cstr_check(desc):
    struct_parse, parse_cstring, _, _, _ = _lib()
    from elftools.construct import CString
    n, pos = desc['len'], desc['pos']
    body = bytes(((i * 7 + n) % 255) + 1 for i in range(n))       # no NUL inside
    fails = []
    outs = []
    for trailing in ((b'', b'xyz\x00more') if desc['terminated'] else (b'',)):
        data = b'\x00' * pos if pos == 0 else bytes(range(1, pos + 1))
        data = data[:pos] + body + (b'\x00' + trailing if desc['terminated'] else b'')
        st = io.BytesIO(data)
        if desc['via'] == 'parse_cstring_from_stream':
            got = guarded(lambda: parse_cstring(st, pos))
            exp = body if desc['terminated'] else None
            if got != exp:
                fails.append(('value[trailing=%d]' % len(trailing), exp, got))
            # also from the current position (no explicit seek)
            st2 = io.BytesIO(data)
            st2.seek(pos)
            got2 = guarded(lambda: parse_cstring(st2))
            if got2 != exp:
                fails.append(('value-noseek[trailing=%d]' % len(trailing), exp, got2))
        else:
            got = guarded(lambda: (struct_parse(CString(''), st, pos), st.tell()))
            if desc['terminated']:
                exp = (body, pos + n + 1)
                if got != exp:
                    fails.append(('value,tell[trailing=%d]' % len(trailing), exp, got))
            else:
                if not (isinstance(got, Raised) and got.isa('ELFParseError')):
                    fails.append(('unterminated', 'ELFParseError', got))
        outs.append(got)
    return fails, True, outs


# ---- 7. length-prefixed blocks ----------------------------------------------------------

def _block_gen():
    for le in (True, False):
        for form in ('DW_FORM_block1', 'DW_FORM_block2', 'DW_FORM_block4', 'DW_FORM_block', 'DW_FORM_exprloc'):
            for n in (0, 1, 127, 128, 255, 256, 300):
                if form == 'DW_FORM_block1' and n > 255:
                    continue
                for padlen in ((0, 3) if form in ('DW_FORM_block', 'DW_FORM_exprloc') else (0,)):
                    yield {'le': le, 'form': form, 'len': n, 'lebpad': padlen}


def _block_check(desc):
    struct_parse, _, _, DS, _ = _lib()
    con = DS(desc['le'], 32, 4, 4).Dwarf_dw_form[desc['form']]
    n = desc['len']
    order = '<' if desc['le'] else '>'
    if desc['form'] == 'DW_FORM_block1':
        pre = struct.pack('B', n)
    elif desc['form'] == 'DW_FORM_block2':
        pre = struct.pack(order + 'H', n)
    elif desc['form'] == 'DW_FORM_block4':
        pre = struct.pack(order + 'I', n)
    else:
        pre = leb.uleb(n, desc['lebpad'])
    body = bytes((i * 13 + 5) & 0xff for i in range(n))
    enc = pre + body
    fails = []
    st = io.BytesIO(b'\xcc' + enc + b'\x01\x02')
    got = guarded(lambda: (list(struct_parse(con, st, 1)), st.tell()))
    if got != (list(body), 1 + len(enc)):
        fails.append(('value,tell', (len(body), 1 + len(enc)), got if isinstance(got, Raised) else (len(got[0]), got[1])))
    cuts = sorted(set(range(0, min(len(enc), len(pre) + 3))) | {len(enc) - 1} | {len(enc) // 2}) if enc else []
    for cut in cuts:
        if cut >= len(enc) or cut < 0:
            continue
        st = io.BytesIO(enc[:cut])
        g = guarded(lambda: struct_parse(con, st))
        if not (isinstance(g, Raised) and g.isa('ELFParseError')):
            fails.append(('truncated@%d' % cut, 'ELFParseError', g))
    return fails, n > 0, (n, got if isinstance(got, Raised) else got[1])


# ---- 8. initial length ---------------------------------------------------------------

def _initlen_gen():
    firsts = [0, 1, 0x7fffffff, 0x80000000, 0xffffff00 - 1, 0xffffff00, 0xffffff01, 0xfffffff0, 0xfffffffe, 0xffffffff]
    seconds = [0, 1, 0xffffffff, 0x100000000, (1 << 63) - 1, 1 << 63, (1 << 64) - 1]
    for le in (True, False):
        for f in firsts:
            if f == 0xffffffff:
                for s in seconds:
                    yield {'le': le, 'first': f, 'second': s}
            else:
                yield {'le': le, 'first': f, 'second': None}


def _initlen_check(desc):
    struct_parse, _, _, DS, _ = _lib()
    order = '<' if desc['le'] else '>'
    fails = []
    outs = []
    for fmt in (32, 64):
        con = DS(desc['le'], fmt, 8, 4).Dwarf_initial_length('')
        enc = struct.pack(order + 'I', desc['first'])
        if desc['second'] is not None:
            enc += struct.pack(order + 'Q', desc['second'])
        st = io.BytesIO(b'\x11\x22' + enc + b'\x77' * 9)
        got = guarded(lambda: (struct_parse(con, st, 2), st.tell()))
        outs.append(got)
        if desc['first'] < 0xffffff00:
            exp = (desc['first'], 6)
        elif desc['first'] == 0xffffffff:
            exp = (desc['second'], 14)
        else:
            exp = 'ELFParseError'
        if exp == 'ELFParseError':
            if not (isinstance(got, Raised) and got.isa('ELFParseError')):
                fails.append(('reserved[fmt%d]' % fmt, exp, got))
        elif got != exp:
            fails.append(('value,tell[fmt%d]' % fmt, exp, got))
        for cut in range(len(enc)):
            st = io.BytesIO(enc[:cut])
            g = guarded(lambda: struct_parse(con, st))
            if not (isinstance(g, Raised) and g.isa('ELFParseError')):
                fails.append(('truncated@%d[fmt%d]' % (cut, fmt), 'ELFParseError', g))
    return fails, True, outs


# ---- 9. RepeatUntilExcluding --------------------------------------------------------

def _repeat_gen():
    for n in (0, 1, 2, 5, 64, 65, 300):
        for term in (True, False):
            yield {'n': n, 'terminated': term}


def _repeat_check(desc):
    struct_parse, _, _, DS, _ = _lib()
    from elftools.common.construct_utils import RepeatUntilExcluding
    ds = DS(True, 32, 4, 4)
    con = RepeatUntilExcluding(lambda obj, ctx: obj == 0, ds.Dwarf_uleb128('x'))
    vals = [((i * 37) % 1000) + 1 for i in range(desc['n'])]
    enc = b''.join(leb.uleb(v) for v in vals) + (b'\x00' if desc['terminated'] else b'')
    st = io.BytesIO(enc + (b'\x09\x00' if desc['terminated'] else b''))
    got = guarded(lambda: (list(struct_parse(con, st)), st.tell()))
    fails = []
    if desc['terminated']:
        if got != (vals, len(enc)):
            fails.append(('value,tell', (vals, len(enc)), got))
    elif not (isinstance(got, Raised) and got.isa('ELFParseError')):
        fails.append(('missing terminator', 'ELFParseError', got))
    return fails, desc['n'] > 0, got


def spaces(tier, seed):
    sp = [
        BulkSpace('leb128-all-strings-le3', _leb3_part, 256, _leb_replay,
                  'every byte string of length 1..3 followed by a fixed tail, through Dwarf_uleb128 and Dwarf_sleb128: '
                  'value and stream position vs DWARF 7.6 arithmetic; every all-continuation string also alone (truncated -> ELFParseError). '
                  'Each case is a distinct input by construction; outcomes are counted per first byte.'),
        ListSpace('leb128-boundary-values', _lebval_gen, _lebval_check, rule='0, +-1, +-2, +-2^n(+-1) for n in 6,7,13,14,31,32,63,64; canonical and padded to 2,5,10,11,20 bytes; 3 tails; every truncation'),
        BulkSpace('int24', _int24_part_factory(tier == 'thorough'), 64, _int24_replay,
                  'all 2^24 values per byte order' if tier == 'thorough' else 'every 24-bit value with <=2 non-zero bytes (second byte in {1,7f,80,ff}) and 2^n+-1, both byte orders'),
        ListSpace('fixed-width-integers', _fixed_gen, _fixed_check, rule='every integer construct of DWARFStructs (x order x format x address size) and ELFStructs (x order x class) x {0,1,sign boundary,max,pattern} x every truncation'),
        ListSpace('cstring', _cstr_gen, _cstr_check, rule='every length 0..300 x terminated/unterminated x parse_cstring_from_stream/CString x stream position {0,37} x with/without trailing bytes'),
        ListSpace('blocks', _block_gen, _block_check, rule='block1/2/4/block/exprloc x length {0,1,127,128,255,256,300} x byte order x non-minimal ULEB prefix x truncations'),
        ListSpace('initial-length', _initlen_gen, _initlen_check, rule='first word boundary classes incl. every reserved escape class, 64-bit second word boundaries, both orders, both struct formats, every truncation'),
        ListSpace('repeat-until-excluding', _repeat_gen, _repeat_check, rule='0..300 elements with and without terminator'),
    ]
    if tier == 'thorough':
        sp.insert(1, BulkSpace('leb128-4byte-continuations', _leb4_part, 128, _leb_replay,
                               'every 4-byte string whose first three bytes carry the continuation bit (the only 4-byte strings not decided by a shorter prefix), both decoders'))
    return sp
