"""C04 — debugging-information entries are decoded into exactly the encoded tree.

E1 over the DWARF assembler (mcx/dwarfgen.py): version x format x address size x byte order
(free, all 32 corners); unit kinds, unit count with mixed parameters, abbreviation tables (per
unit / shared / non-zero offset / sparse and 2-byte codes / vendor and unknown tag and attribute
numbers), tree shapes, DW_AT_sibling in every reference form, extra null entries, and a probe
attribute ranging over EVERY form of the DWARF 2-5 table (+ GNU alt forms, indirect and
indirect->indirect) x value classes x position (root / child).  Oracle: the encoder's record
(offset, size, code, tag, child flag, ordered attributes: name, final form, raw value, resolved
value, offset, indirection depth) plus structural invariants (tiling, nesting, references).
"""
from mcx import core, dwarfgen as dg
from mcx.core import Case, ChoiceSpace, ListSpace, guarded, Raised
from mcx.dwarfgen import F, TAG, AT, UT, Abbrev, Die, Unit, DP, null
from mcx.ref import names as nm

ID = 'C04'
LEVEL = 'model_checking'
ASSUMPTIONS = ['one occurrence of an attribute name per DIE (the API is a dict keyed by name)', 'variable-width references are emitted as fixed-width (padded) LEB128',
               'DW_FORM_GNU_addr_index / GNU_str_index and DW_FORM_ref (0x02) are outside the claimed form table']
SEED = 0

# probe forms: (label, form code, list of model values)


def probe_forms(dp):
    am = (1 << (8 * dp.addr)) - 1
    om = (1 << dp.fmt) - 1
    blk = [b'', b'\x01', bytes(range(127)), bytes((i * 3) & 0xff for i in range(128)), bytes((i * 5) & 0xff for i in range(300))]
    L = [
        ('addr', F['addr'], [0x401000, 0, 1, am]),
        ('data1', F['data1'], [7, 0, 0xff, 0x80]), ('data2', F['data2'], [0x1234, 0, 0xffff, 0x8000]), ('data4', F['data4'], [0x12345678, 0, 0xffffffff, 0x80000000]),
        ('data8', F['data8'], [0x1122334455667788, 0, (1 << 64) - 1, 1 << 63]), ('data16', F['data16'], [bytes(range(16)), b'\xff' * 16, b'\0' * 16]),
        ('sdata', F['sdata'], [5, 0, -1, 63, 64, -64, -65, (1 << 63) - 1, -(1 << 63), (1, 5), (-1, 10)]),
        ('udata', F['udata'], [5, 0, 127, 128, (1 << 32) - 1, (1 << 64) - 1, (1, 5), (0, 2), (300, 10)]),
        ('block1', F['block1'], blk[:4]), ('block2', F['block2'], blk), ('block4', F['block4'], blk), ('block', F['block'], blk),
        ('exprloc', F['exprloc'], [b'\x91\x68', b'', bytes(range(1, 128)), bytes(128), bytes(300)]),
        ('string', F['string'], [b'hello', b'', b'x', b'\xc3\xa9t\xc3\xa9', b's' * 63, b's' * 64, b's' * 65, b's' * 300]),
        ('strp', F['strp'], [b'in str table', 0, b'', b'q' * 200]),
        ('flag', F['flag'], [1, 0, 2, 0xff]), ('flag_present', F['flag_present'], [None]),
        ('ref1', F['ref1'], [('ref', 'c0'), ('ref', 'root')]), ('ref2', F['ref2'], [('ref', 'c0'), ('ref', 'last')]), ('ref4', F['ref4'], [('ref', 'c0'), ('ref', 'last')]),
        ('ref8', F['ref8'], [('ref', 'c0'), ('ref', 'last')]), ('ref_udata', F['ref_udata'], [('ref', 'c0'), ('ref', 'last')]),
        ('ref_addr', F['ref_addr'], [('ref', 'c0'), ('ref', 'other_unit_die'), ('ref', 'root')]),
        ('sec_offset', F['sec_offset'], [0x10, 0, om]),
        ('ref_sig8', F['ref_sig8'], [0x0102030405060708, 0, (1 << 64) - 1]),
        ('implicit_const', F['implicit_const'], [5, 0, -1, 63, 64, -65, (1 << 63) - 1, -(1 << 63)]),
        ('strp_sup', F['strp_sup'], [0x20, 0, om]), ('ref_sup4', F['ref_sup4'], [0x30, 0xffffffff]), ('ref_sup8', F['ref_sup8'], [0x30, (1 << 64) - 1]),
        ('GNU_strp_alt', F['GNU_strp_alt'], [0x20, om]), ('GNU_ref_alt', F['GNU_ref_alt'], [0x30, om]),
        ('line_strp', F['line_strp'], [b'in line_str', b'']),
        ('addrx', F['addrx'], [('idx', 0), ('idx', 3), ('idx', 1, 3)]), ('addrx1', F['addrx1'], [('idx', 1), ('idx', 3)]), ('addrx2', F['addrx2'], [('idx', 2)]),
        ('addrx3', F['addrx3'], [('idx', 3)]), ('addrx4', F['addrx4'], [('idx', 0)]),
        ('strx', F['strx'], [('idx', 0), ('idx', 2), ('idx', 1, 3)]), ('strx1', F['strx1'], [('idx', 1)]), ('strx2', F['strx2'], [('idx', 2)]),
        ('strx3', F['strx3'], [('idx', 0)]), ('strx4', F['strx4'], [('idx', 1)]),
        ('loclistx', F['loclistx'], [('idx', 0), ('idx', 2), ('idx', 1, 2)]), ('rnglistx', F['rnglistx'], [('idx', 0), ('idx', 2)]),
        ('indirect_data1', F['indirect'], [('indirect', F['data1'], 9)]), ('indirect_sdata', F['indirect'], [('indirect', F['sdata'], -300)]),
        ('indirect_string', F['indirect'], [('indirect', F['string'], b'via indirect')]), ('indirect_strp', F['indirect'], [('indirect', F['strp'], b'ind strp')]),
        ('indirect_block1', F['indirect'], [('indirect', F['block1'], b'\x01\x02')]), ('indirect_addr', F['indirect'], [('indirect', F['addr'], 0x1234)]),
        ('indirect_ref4', F['indirect'], [('indirect', F['ref4'], ('ref', 'c0'))]), ('indirect_flag_present', F['indirect'], [('indirect', F['flag_present'], None)]),
        ('indirect_indirect_udata', F['indirect'], [('indirect', F['indirect'], ('indirect', F['udata'], 300))]),
        ('indirect_x3_data2', F['indirect'], [('indirect', F['indirect'], ('indirect', F['indirect'], ('indirect', F['data2'], 0xbeef)))]),
        ('indirect_strx1', F['indirect'], [('indirect', F['strx1'], ('idx', 2))]), ('indirect_sec_offset', F['indirect'], [('indirect', F['sec_offset'], 0x44)]),
        ('indirect_exprloc', F['indirect'], [('indirect', F['exprloc'], b'\x9c')]),
    ]
    return L


MIN_VERSION = {'sec_offset': 4, 'exprloc': 4, 'flag_present': 4, 'ref_sig8': 4, 'implicit_const': 5, 'strp_sup': 5, 'ref_sup4': 5, 'ref_sup8': 5, 'data16': 5,
               'line_strp': 5, 'addrx': 5, 'addrx1': 5, 'addrx2': 5, 'addrx3': 5, 'addrx4': 5, 'strx': 5, 'strx1': 5, 'strx2': 5, 'strx3': 5, 'strx4': 5,
               'loclistx': 5, 'rnglistx': 5, 'indirect_flag_present': 4, 'indirect_strx1': 5, 'indirect_sec_offset': 4, 'indirect_exprloc': 4}
PROBE_LABELS = [x[0] for x in probe_forms(DP())]


def build(ch):
    version = ch.free('version', [4, 5, 2, 3])
    fmt = ch.free('format', [32, 64])
    addr = ch.free('address_size', [8, 4])
    le = ch.free('data', [True, False])
    dp = DP(le, fmt, addr, version)
    forms = probe_forms(dp)
    pl = ch.pick('probe.form', PROBE_LABELS)
    pform = next(x for x in forms if x[0] == pl)
    if MIN_VERSION.get(pl, 2) > version:
        # form not defined for this version: generate the image with the default probe instead (counted as a duplicate input)
        pform = forms[1]
        pl = pform[0]
    pvals = pform[2]
    pv_i = ch.pick('probe.value', list(range(12)))
    pv = pvals[pv_i % len(pvals)]
    ppos = ch.pick('probe.position', ['child', 'root', 'root_before_bases'])
    utype = ch.pick('unit_type', ['compile', 'partial', 'skeleton', 'split_compile', 'type', 'split_type']) if version >= 5 else 'compile'
    nunits = ch.pick('units', ['one', 'two_mixed', 'three_mixed', 'with_v4_types', 'two_alike'])
    abmode = ch.pick('abbrev_table', ['per_unit', 'shared', 'nonzero_offset'])
    codes = ch.pick('abbrev_codes', ['dense', 'sparse', 'two_byte'])
    tagmode = ch.pick('tags_attrs', ['standard', 'vendor', 'unknown'])
    shape = ch.pick('tree', ['two_children', 'root_only', 'root_leaf', 'depth3', 'fanout3', 'last_child_has_children', 'depth12'])
    sibling = ch.pick('DW_AT_sibling', ['absent', 'ref4', 'ref1', 'ref2', 'ref8', 'ref_udata', 'ref_addr'])
    extra_nulls = ch.pick('extra_nulls', [0, 1, 3])
    null_len = ch.pick('null_entry_bytes', [1, 2])
    info_lead = 0

    code = {'dense': [1, 2, 3, 4, 5, 6, 7, 8, 9, 10], 'sparse': [3, 7, 20, 21, 50, 100, 127, 5, 9, 11], 'two_byte': [128, 129, 300, 16383, 16384, 200, 201, 202, 203, 204]}[codes]
    tg = {'standard': (TAG['subprogram'], TAG['variable'], TAG['lexical_block']), 'vendor': (0x4106, 0x4109, 0x8765), 'unknown': (0x3fff, 0x5000, 0xffff)}[tagmode]
    at_name = {'standard': AT['name'], 'vendor': 0x2111, 'unknown': 0x3ffe}[tagmode]
    at_probe = {'standard': AT['const_value'], 'vendor': 0x2116, 'unknown': 0x1fff}[tagmode]
    if pl in ('loclistx',):
        at_probe = AT['location']
    if pl in ('rnglistx',):
        at_probe = AT['ranges']

    def base_specs():
        s = []
        if version >= 5:
            s = [(AT['str_offsets_base'], F['sec_offset'], None), (AT['addr_base'], F['sec_offset'], None), (AT['loclists_base'], F['sec_offset'], None),
                 (AT['rnglists_base'], F['sec_offset'], None)]
        return s
    base_vals = [('base', 'str'), ('base', 'addr'), ('base', 'loc'), ('base', 'rng')] if version >= 5 else []

    probe_spec = (at_probe, pform[1], pv if pl == 'implicit_const' else None)
    # ---- main unit
    root_specs = [(AT['producer'], F['string'], None), (AT['language'], F['data1'], None)]
    root_vals = [b'mcx', 0x0c]
    if ppos == 'root_before_bases':
        root_specs += [probe_spec] + base_specs()
        root_vals += [pv] + base_vals
    elif ppos == 'root':
        root_specs += base_specs() + [probe_spec]
        root_vals += base_vals + [pv]
    else:
        root_specs += base_specs()
        root_vals += base_vals
    has_kids = shape != 'root_only'
    root_tag = {'compile': TAG['compile_unit'], 'partial': TAG['partial_unit'], 'skeleton': TAG['skeleton_unit'], 'split_compile': TAG['compile_unit'],
                'type': TAG['type_unit'], 'split_type': TAG['type_unit']}[utype]
    a_root = Abbrev(code[0], root_tag, has_kids, root_specs)
    sib_form = {'absent': None, 'ref4': F['ref4'], 'ref1': F['ref1'], 'ref2': F['ref2'], 'ref8': F['ref8'], 'ref_udata': F['ref_udata'], 'ref_addr': F['ref_addr']}[sibling]
    leaf_specs = [(at_name, F['string'], None)]
    a_leaf = Abbrev(code[1], tg[1], False, leaf_specs + ([probe_spec] if ppos == 'child' else []))
    a_leaf2 = Abbrev(code[2], tg[1], False, [(at_name, F['strp'], None), (AT['decl_line'], F['udata'], None)])
    par_specs = [(at_name, F['string'], None)] + ([(AT['sibling'], sib_form, None)] if sib_form else [])
    a_par = Abbrev(code[3], tg[0], True, par_specs)
    a_blk = Abbrev(code[4], tg[2], True, [])

    def leaf(label, i):
        vals = [b'leaf%d' % i] + ([pv] if ppos == 'child' else [])
        return Die(a_leaf, vals, label=label)

    def leaf2(label, i):
        return Die(a_leaf2, [b'strp leaf %d' % i, 100 + i], label=label)

    def parent(label, kids, next_label):
        vals = [b'parent ' + label.encode()] + ([('ref', next_label)] if sib_form else [])
        return Die(a_par, vals, kids + [null(null_len)], label=label)
    if shape == 'root_only':
        kids = []
    elif shape == 'root_leaf':
        kids = [leaf('c0', 0), Die(None, label='last')]
        kids[-1].null_len = null_len
    elif shape == 'two_children':
        kids = [leaf('c0', 0), parent('p1', [leaf2('g0', 0), leaf2('g1', 1)], 'c2'), leaf2('c2', 2), null(null_len)]
    elif shape == 'depth3':
        kids = [leaf('c0', 0), parent('p1', [parent('p2', [leaf2('g0', 0)], 'g9'), leaf2('g9', 9)], 'c2'), leaf2('c2', 2), null(null_len)]
    elif shape == 'fanout3':
        kids = [leaf('c0', 0), parent('p1', [leaf2('g0', 0)], 'p3'), parent('p3', [leaf2('g1', 1), leaf2('g2', 2)], 'p4'), parent('p4', [], 'c2'), leaf2('c2', 2), null(null_len)]
    elif shape == 'last_child_has_children':
        kids = [leaf('c0', 0), leaf2('c2', 2), parent('p1', [leaf2('g0', 0), Die(a_blk, [], [leaf2('g5', 5), null(null_len)])], 'endnull'), Die(None, label='endnull')]
        kids[-1].null_len = null_len
    else:   # depth12
        inner = [leaf2('g0', 0)]
        for d in range(11):
            inner = [Die(a_blk, [], inner + [null(null_len)])]
        kids = [leaf('c0', 0)] + inner + [leaf2('c2', 2), null(null_len)]
    # 'last' label = the last real DIE of the unit
    root = Die(a_root, root_vals, kids, label='root')
    allreal = [d for d in dg._iter(root) if d.abbrev is not None]
    if not any(d.label == 'last' for d in dg._iter(root)):
        allreal[-1].label = allreal[-1].label or 'last'
        if allreal[-1].label != 'last':
            # alias
            pass
    ukw = {}
    if utype in ('type', 'split_type'):
        ukw['type_die_label'] = 'c0' if has_kids else 'root'
    main = Unit(dp, root, unit_type=UT[utype] if version >= 5 else None, abbrev_key=('shared' if abmode == 'shared' else 'own'), extra_nulls=extra_nulls, **ukw)
    # ---- companion units
    units = [main]

    def companion(i, cdp, label_prefix, in_types=False):
        ca = Abbrev(code[7 if i == 2 else 5], TAG['type_unit'] if in_types else TAG['compile_unit'], True, [(AT['name'], F['string'], None)])
        cb = Abbrev(code[8 if i == 2 else 6], TAG['base_type'], False, [(AT['name'], F['string'], None), (AT['byte_size'], F['data1'], None)]
                    + ([(AT['type'], F['ref_addr'], None)] if in_types else []))
        # the type unit's entry points into .debug_info with a section-relative reference; the unit is long enough for that offset to fall numerically inside
        # the type unit's own extent in .debug_types (a reference resolved against the wrong section would find *something* there)
        kids2 = [Die(cb, [b'int%d' % i + (b'_' * 90 if in_types else b''), 4] + ([('ref', allreal[-1].label)] if in_types else []), label=label_prefix + '_die'), null()]
        r = Die(ca, [b'companion%d' % i], kids2, label=label_prefix + '_root')
        return Unit(cdp, r, unit_type=(UT['compile'] if cdp.version >= 5 else None), abbrev_key=('shared' if abmode == 'shared' else 'own'),
                    in_types=in_types, type_die_label=(label_prefix + '_die' if in_types else None), type_signature=0x0102030405060708)
    if nunits == 'one':
        # reference target in "another unit" falls back to this unit
        pass
    if nunits in ('two_mixed', 'three_mixed'):
        units.append(companion(1, DP(le, 64 if fmt == 32 else 32, addr, 5 if version != 5 else 3), 'other_unit'))
    if nunits == 'three_mixed':
        units.insert(0, companion(2, DP(le, fmt, 4 if addr == 8 else 8, 2), 'first_unit'))
    if nunits == 'with_v4_types':
        units.append(companion(3, DP(le, fmt, addr, 4), 'types_unit', in_types=True))
    if nunits == 'two_alike':
        # a second unit with the SAME parameters; in DWARF 5 it has its own string-offsets / address contributions and uses the same indices as the first
        cdp = DP(le, fmt, addr, version)
        if version >= 5:
            ca = Abbrev(code[5], TAG['compile_unit'], True, [(AT['name'], F['string'], None), (AT['str_offsets_base'], F['sec_offset'], None), (AT['addr_base'], F['sec_offset'], None)])
            cb = Abbrev(code[6], TAG['variable'], False, [(AT['name'], F['strx1'], None), (AT['const_value'], F['strx'], None), (AT['low_pc'], F['addrx'], None)])
            kids2 = [Die(cb, [('strx', 0), ('strx', 1), ('addrx', 0)], label='alike_die'), Die(cb, [('strx', 2), ('strx', 0), ('addrx', 1)], label='alike_die2'), null()]
            r = Die(ca, [b'alike', ('base', 'str'), ('base', 'addr')], kids2, label='alike_root')
        else:
            ca = Abbrev(code[5], TAG['compile_unit'], True, [(AT['name'], F['string'], None)])
            cb = Abbrev(code[6], TAG['base_type'], False, [(AT['name'], F['string'], None), (AT['byte_size'], F['data1'], None)])
            r = Die(ca, [b'alike'], [Die(cb, [b'int', 4], label='alike_die'), null()], label='alike_root')
        units.append(Unit(cdp, r, unit_type=(UT['compile'] if version >= 5 else None), abbrev_key=('shared' if abmode == 'shared' else 'own')))
    labels = {d.label for u in units for d in dg._iter(u.root) if d.label}
    # resolve label aliases used by probe values
    alias = {}
    if 'other_unit_die' not in labels:
        alias['other_unit_die'] = 'c0' if 'c0' in labels else 'root'
    if 'c0' not in labels:
        alias['c0'] = 'root'
    if 'last' not in labels:
        alias['last'] = [d for d in dg._iter(root) if d.abbrev is not None][-1].label or 'root'
    asm = dg.Assembly(units, le=le, abbrev_lead=(9 if abmode == 'nonzero_offset' else 0), strings=(b'first', b'middle string', b'last one'))
    secs_labels = asm.ctx.labels
    # label aliasing is applied after labels are collected in assemble(): patch ctx.labels lazily
    _orig = asm.assemble

    def assemble():
        for u in units:
            for d in dg._iter(u.root):
                if d.label:
                    asm.ctx.labels[d.label] = d
        for k, v in alias.items():
            asm.ctx.labels[k] = asm.ctx.labels[v]
        return _orig()
    secs = assemble()
    return asm, secs, units, dict(dp=dp, probe=pl, probe_value=repr(pv)[:40], version=version)


def observe_unit(cu):
    out = []
    for die in cu.iter_DIEs():
        attrs = []
        for k, a in die.attributes.items():
            raw = a.raw_value
            val = a.value
            raw = list(raw) if isinstance(raw, list) else raw
            val = list(val) if isinstance(val, list) else val
            attrs.append((k, a.name, a.form, raw, val, a.offset, a.indirection_length))
        out.append((die.offset, die.size, die.abbrev_code, die.tag, die.has_children, attrs, die.is_null()))
    return out


def compare_unit(path, u, cu, fails, info):
    dp = u.dp
    hdr = guarded(lambda: dict(cu.header))
    if isinstance(hdr, Raised):
        fails.append((path + '.header', 'dict', hdr))
        return None
    il = 4 if dp.fmt == 32 else 12
    exp_h = {'unit_length': u.size - il, 'version': dp.version, 'debug_abbrev_offset': u.abbrev_offset, 'address_size': dp.addr}
    if u.in_types:
        exp_h.update(signature=u.type_signature, type_offset=u.type_offset)
    elif dp.version >= 5:
        if u.unit_type in (UT['skeleton'], UT['split_compile']):
            exp_h['dwo_id'] = u.dwo_id
        elif u.unit_type in (UT['type'], UT['split_type']):
            exp_h.update(type_signature=u.type_signature, type_offset=u.type_offset)
    for k, v in exp_h.items():
        if hdr.get(k) != v:
            fails.append(('%s.header.%s' % (path, k), v, hdr.get(k)))
    if dp.version >= 5 and not u.in_types:
        r = nm.check('DW_UT', '*', u.unit_type, hdr.get('unit_type'))
        if r:
            fails.append((path + '.header.unit_type', r[0], r[1]))
    off_attr = 'tu_offset' if u.in_types else 'cu_offset'
    die_attr = 'tu_die_offset' if u.in_types else 'cu_die_offset'
    for attr, ev in ((off_attr, u.offset), (die_attr, u.die_offset), ('size', u.size)):
        g = guarded(getattr, cu, attr)
        if g != ev:
            fails.append(('%s.%s' % (path, attr), ev, g))
    g = guarded(cu.dwarf_format)
    if g != dp.fmt:
        fails.append((path + '.dwarf_format()', dp.fmt, g))
    got = guarded(observe_unit, cu)
    if isinstance(got, Raised):
        fails.append((path + '.iter_DIEs()', '%d entries' % len(u.dies), got))
        return None
    # the library's iteration stops at the root's own terminator; extra nulls after it are not part of the tree
    exp_dies = [d for d in u.dies if not (d.abbrev is None and d.parent is None and d is not u.root)]
    if len(got) != len(exp_dies):
        fails.append((path + '.iter_DIEs() count', len(exp_dies), len(got)))
        return got
    for i, (d, g) in enumerate(zip(exp_dies, got)):
        p = '%s.dies[%d]' % (path, i)
        off, size, code, tag, kids, attrs, isnull = g
        if off != d.offset:
            fails.append((p + '.offset', d.offset, off))
        if size != d.size:
            fails.append((p + '.size', d.size, size))
        if d.abbrev is None:
            if not isnull or code != 0 or tag is not None or attrs:
                fails.append((p + ' (null entry)', 'null', (code, tag)))
            continue
        if code != d.abbrev.code:
            fails.append((p + '.abbrev_code', d.abbrev.code, code))
        r = nm.check('DW_TAG', '*', d.abbrev.tag, tag)
        if r:
            fails.append((p + '.tag', r[0], r[1]))
        if kids != d.abbrev.children:
            fails.append((p + '.has_children', d.abbrev.children, kids))
        if len(attrs) != len(d.attrs):
            fails.append((p + ' attribute count', len(d.attrs), len(attrs)))
            continue
        for j, ((at, ff, raw, val, aoff, ind), (k, an, af, araw, aval, ao, ai)) in enumerate(zip(d.attrs, attrs)):
            q = '%s.attributes[%d]' % (p, j)
            r = nm.check('DW_AT', '*', at, k)
            if r or an != k:
                fails.append((q + '.name', r[0] if r else k, k if r else an))
            r = nm.check('DW_FORM', '*', ff, af)
            if r:
                fails.append((q + '.form', r[0], r[1]))
            if araw != raw or type(araw) is not type(raw):
                fails.append((q + '.raw_value (%s)' % dg.FNAME.get(ff), _s(raw), _s(araw)))
            if aval != val or (type(aval) is not type(val) and not (isinstance(val, bool) and isinstance(aval, bool))):
                fails.append((q + '.value (%s)' % dg.FNAME.get(ff), _s(val), _s(aval)))
            if ao != aoff:
                fails.append((q + '.offset', aoff, ao))
            if ai != ind:
                fails.append((q + '.indirection_length', ind, ai))
        if len(fails) > 8:
            break
    return got


def _s(v):
    s = repr(v)
    return s if len(s) < 120 else s[:117] + '...'


def structure_checks(path, u, cu, dwarf, fails, labels):
    """Invariants evaluated on the decoded result + navigation API."""
    exp = [d for d in u.dies if not (d.abbrev is None and d.parent is None and d is not u.root)]
    # tiling
    pos = u.die_offset
    for d in exp:
        if d.offset != pos:
            break
        pos += d.size
    top = guarded(cu.get_top_DIE)
    if isinstance(top, Raised) or top.offset != u.root.offset:
        fails.append((path + '.get_top_DIE()', u.root.offset, top if isinstance(top, Raised) else top.offset))
        return
    by_off = {}
    for die in cu.iter_DIEs():
        by_off[die.offset] = die
    for d in exp:
        if d.abbrev is None:
            continue
        die = by_off.get(d.offset)
        if die is None:
            continue
        kids = guarded(lambda: [c.offset for c in die.iter_children()])
        ek = [c.offset for c in d.children if c.abbrev is not None]
        if kids != ek:
            fails.append(('%s.die@%#x.iter_children()' % (path, d.offset), ek, kids))
        par = guarded(lambda: (lambda x: None if x is None else x.offset)(die.get_parent()))
        ep = d.parent.offset if d.parent is not None else None
        if par != ep:
            fails.append(('%s.die@%#x.get_parent()' % (path, d.offset), ep, par))
        if d.parent is not None:
            sib = guarded(lambda: [s.offset for s in die.iter_siblings()])
            es = [c.offset for c in d.parent.children if c.abbrev is not None and c is not d]
            if sib != es:
                fails.append(('%s.die@%#x.iter_siblings()' % (path, d.offset), es, sib))
        # references
        for (at, ff, raw, val, aoff, ind) in d.attrs:
            fn = dg.FNAME.get(ff)
            if fn in ('ref1', 'ref2', 'ref4', 'ref8', 'ref_udata', 'ref_addr'):
                tgt_off = (raw + u.offset) if fn != 'ref_addr' else raw
                key = [k for k in die.attributes if die.attributes[k].offset == aoff]
                if not key:
                    continue
                g = guarded(lambda: die.get_DIE_from_attribute(key[0]).offset)
                if g != tgt_off:
                    fails.append(('%s.die@%#x.get_DIE_from_attribute(%s)' % (path, d.offset, fn), tgt_off, g))
    # fresh-object random access: DIE at each offset equals the sequential one (size and tag)
    for d in exp[::3]:
        g = guarded(lambda: (lambda x: (x.offset, x.size, x.abbrev_code))(cu.get_DIE_from_refaddr(d.offset)))
        if g != (d.offset, d.size, d.abbrev.code if d.abbrev else 0):
            fails.append(('%s.get_DIE_from_refaddr(%#x)' % (path, d.offset), (d.offset, d.size), g))


def run(ch):
    asm, secs, units, info = build(ch)
    dp = info['dp']
    # the container's default address size (ELF class / 8) is not the units' business: every unit carries its own address_size
    cdef = dp.addr if ch.pick('container_default_address_size', ['unit', 'other']) == 'unit' else 12 - dp.addr
    fails = []
    data = b'|'.join(secs[k] for k in sorted(secs))
    if asm.overflow:
        # a reference target beyond the reach of its fixed-width form (ref1 over 255 bytes...): no well-formed file has that
        return Case([], data, 'reference-overflow', nontrivial=False, envelope=False)
    dw = guarded(dg.make_dwarfinfo, secs, dp.le, cdef)
    if isinstance(dw, Raised):
        return Case([('DWARFInfo()', 'constructs', dw)], data, repr(dw))
    cus = guarded(lambda: list(dw.iter_CUs()))
    info_units = [u for u in units if not u.in_types]
    type_units = [u for u in units if u.in_types]
    outs = []
    if isinstance(cus, Raised) or len(cus) != len(info_units):
        fails.append(('iter_CUs()', '%d units' % len(info_units), cus if isinstance(cus, Raised) else len(cus)))
    else:
        for i, (u, cu) in enumerate(zip(info_units, cus)):
            if type(cu).__name__ != 'CompileUnit':
                fails.append(('units[%d] class' % i, 'CompileUnit', type(cu).__name__))
            outs.append(compare_unit('units[%d]' % i, u, cu, fails, info))
        if not fails:
            # navigation on fresh objects
            dw2 = dg.make_dwarfinfo(secs, dp.le, cdef)
            for i, (u, cu) in enumerate(zip(info_units, dw2.iter_CUs())):
                structure_checks('units[%d]' % i, u, cu, dw2, fails, asm.ctx.labels)
            # parent of a DIE fetched by offset on a FRESH object (exercises the ancestor search, no cached links)
            for i, u in enumerate(info_units):
                for d in u.dies:
                    if d.abbrev is None or d.unit is not u or (d.parent is None and d is not u.root):
                        continue
                    dw3 = dg.make_dwarfinfo(secs, dp.le, cdef)
                    g = guarded(lambda: (lambda x: None if x is None else x.offset)(dw3.get_DIE_from_refaddr(d.offset).get_parent()))
                    ep = d.parent.offset if d.parent is not None else None
                    if g != ep:
                        fails.append(('units[%d]: fresh get_DIE_from_refaddr(%#x).get_parent()' % (i, d.offset), ep, g))
            # cross-unit reference resolution through DWARFInfo
            for u in info_units:
                for d in u.dies[:4]:
                    g = guarded(lambda: dw2.get_DIE_from_refaddr(d.offset).offset)
                    if g != d.offset:
                        fails.append(('get_DIE_from_refaddr(%#x)' % d.offset, d.offset, g))
    if type_units:
        tus = guarded(lambda: list(dw.iter_TUs()))
        if isinstance(tus, Raised) or len(tus) != len(type_units):
            fails.append(('iter_TUs()', len(type_units), tus if isinstance(tus, Raised) else len(tus)))
        else:
            for i, (u, tu) in enumerate(zip(type_units, tus)):
                if type(tu).__name__ != 'TypeUnit':
                    fails.append(('type_units[%d] class' % i, 'TypeUnit', type(tu).__name__))
                outs.append(compare_unit('type_units[%d]' % i, u, tu, fails, info))
                g = guarded(lambda: dw.get_DIE_by_sig8(u.type_signature).offset)
                if g != u.offset + u.type_offset:
                    fails.append(('get_DIE_by_sig8()', u.offset + u.type_offset, g))
                # the section-relative reference out of the type unit designates an entry of .debug_info
                tgt = [d for d in info_units[0].dies if d.abbrev is not None][-1] if info_units else None
                if tgt is not None and not fails:
                    g = guarded(lambda: (lambda x: (x.offset, x.abbrev_code, type(x.cu).__name__))(dw.get_DIE_by_sig8(u.type_signature).get_DIE_from_attribute('DW_AT_type')))
                    if g != (tgt.offset, tgt.abbrev.code, 'CompileUnit'):
                        fails.append(('type unit entry: get_DIE_from_attribute(DW_AT_type, ref_addr)', (tgt.offset, tgt.abbrev.code, 'CompileUnit'), g))
    ndies = sum(len(u.dies) for u in units)
    return Case(fails, data, repr(outs), nontrivial=ndies > 0,
                sample={'version': dp.version, 'format': dp.fmt, 'address_size': dp.addr, 'le': dp.le, 'probe': info['probe'], 'probe_value': info['probe_value'],
                        'units': len(units), 'dies': ndies, 'info_bytes': len(secs['.debug_info'])}, checks=ndies)


# ---- a unit with more entries than any plausible cache bound -------------------------------------------------------

def _large_gen():
    for order in ('walk_then_navigate', 'navigate_only', 'navigate_walk_navigate'):
        for which in ('first', 'fn', 'inner', 'last', 'leaf1000'):
            yield {'order': order, 'entry': which}


def _large_check(desc):
    """2 506 entries under one root (one byte each for most): an entry object obtained first must navigate to the encoded parent / siblings / children
    after the whole unit has been walked (whatever a bounded or rebuilt cache did with the other entry objects in between)."""
    from mcx.props.c10 import big_flat_model
    secs = big_flat_model()
    dw = dg.make_dwarfinfo(secs, True, 8)
    cu = next(dw.iter_CUs())
    # model: root@11 'big.c\0' -> children: first, fn(inner), 2500 leaves, last
    offs = {'root': 11}
    o = 11 + 1 + 6
    offs['first'] = o
    o += 1 + 6
    offs['fn'] = o
    o += 1 + 3
    offs['inner'] = o
    o += 1 + 6 + 1          # inner + the null that ends fn's children
    leaves = list(range(o, o + 2500))
    o += 2500
    offs['last'] = o
    offs['leaf1000'] = leaves[1000]
    top_children = [offs['first'], offs['fn']] + leaves + [offs['last']]
    want = {'first': (11, [x for x in top_children if x != offs['first']], []), 'fn': (11, [x for x in top_children if x != offs['fn']], [offs['inner']]),
            'inner': (offs['fn'], [], []), 'last': (11, [x for x in top_children if x != offs['last']], []),
            'leaf1000': (11, [x for x in top_children if x != offs['leaf1000']], [])}[desc['entry']]
    fails = []
    d = guarded(dw.get_DIE_from_refaddr, offs[desc['entry']])
    if isinstance(d, Raised):
        return [('get_DIE_from_refaddr(%#x)' % offs[desc['entry']], 'an entry', d)], True, repr(d)

    def nav(label):
        g = guarded(lambda: ((lambda p: None if p is None else p.offset)(d.get_parent()), [x.offset for x in d.iter_siblings()], [x.offset for x in d.iter_children()]))
        if g != want:
            what = g if isinstance(g, Raised) else ('parent %r, %d siblings%s, children %r' % (g[0], len(g[1]), ' (itself among them)' if offs[desc['entry']] in g[1] else '', g[2]))
            fails.append(('%s: %s entry kept by the client' % (label, desc['entry']), 'parent %r, %d siblings, children %r' % (want[0], len(want[1]), want[2]), what))
    if desc['order'] != 'walk_then_navigate':
        nav('before any walk')
    if desc['order'] != 'navigate_only':
        n = guarded(lambda: [x.offset for x in cu.iter_DIEs() if not x.is_null()])
        exp_all = sorted([11, offs['first'], offs['fn'], offs['inner'], offs['last']] + leaves)
        if n != exp_all:
            fails.append(('iter_DIEs() of the large unit', '%d entries' % len(exp_all), n if isinstance(n, Raised) else '%d entries' % len(n)))
        nav('after walking the whole unit')
    return fails, True, repr(desc)


def spaces(tier, seed):
    global SEED
    SEED = seed
    k = 2 if tier == 'quick' else 3
    return [ChoiceSpace('die-trees', run, k, rule='free: version {4,5,2,3} x format x address size x order (32 corners); picks: probe form (%d incl. every DWARF 2-5 form, GNU alt forms, indirect x9 incl. cascades) '
                        'x value class (<=12 per form) x position {child, root, root before *_base}; unit type (6, v5); units {1, 2 mixed, 3 mixed, + v4 .debug_types}; abbreviation tables {per unit, shared, '
                        'non-zero offset}; codes {dense, sparse, 2-byte}; tags/attributes {standard, vendor, unknown}; tree {7 shapes to depth 12}; DW_AT_sibling {absent + 6 reference forms}; '
                        'extra nulls {0,1,3}; null entry bytes {1,2}' % len(PROBE_LABELS), deadline_s=(400 if tier == 'quick' else 4000)),
            ListSpace('large-unit', _large_gen, _large_check, nparts=15, rule='one unit of 2 506 entries (2 503 children of the root, one nested): 5 kept entry objects x {navigate, walk the unit then navigate, '
                      'navigate / walk / navigate}: parent, siblings and children of the kept object equal the encoded tree')]
