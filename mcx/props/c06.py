"""C06 — call-frame information is parsed and interpreted per DWARF / .eh_frame rules.

ALL FDE instruction sequences up to length L over the DW_CFA alphabet (~45 letters, operands at
boundaries) after a default CIE prologue; CIE-prologue variants x sequences; .debug_frame section
shapes (CIE versions 1/3/4, alignment factors, RA register, entry orders incl. FDE before its CIE,
nop padding, 32/64-bit format) and .eh_frame shapes (augmentations, pointer encodings x pcrel, LSDA,
personality, section address, zero terminator).  Oracle: entry list by kind/offset/header fields,
augmentation, pointer-decoded location, LSDA, fde.cie.offset, (opcode, operands) split, and the
reference interpreter of DWARF 6.4.2 for get_decoded() (rows, CFA rule, register rules, reg_order).
"""
import itertools

from mcx import core, dwarfgen as dg
from mcx.core import BulkSpace, BulkResult, guarded, Raised
from mcx.dwarfgen import DP
from mcx.observe import plain
from mcx.ref import cfi, leb

ID = 'C06'
LEVEL = 'model_checking'
ASSUMPTIONS = ['malformed sequences (restore_state on an empty stack, def_cfa_register/offset without a register-form CFA) are not generated',
               'pc-relative pointers are chosen so that results stay inside the address width', '.eh_frame is 32-bit DWARF; a v4 CIE address_size equals the container\'s',
               'the key under which the S augmentation flag is reported is not compared; personality pointers are compared as raw decoded values']

BLK0, BLK2 = [], [0x77, 0x08]


def alphabet(for_eh):
    L = [('nop',), ('advance_loc', 1), ('advance_loc', 63), ('advance_loc1', 0), ('advance_loc1', 255), ('advance_loc2', 0x100), ('advance_loc4', 0x10000),
         ('def_cfa', 7, 16), ('def_cfa', 200, 0), ('def_cfa_sf', 7, -2), ('def_cfa_sf', 6, 3), ('def_cfa_register', 6), ('def_cfa_offset', 16), ('def_cfa_offset', 1000),
         ('def_cfa_offset_sf', -2), ('def_cfa_offset_sf', 3), ('def_cfa_expression', BLK0), ('def_cfa_expression', BLK2),
         ('undefined', 0), ('undefined', 17), ('same_value', 3), ('offset', 6, 2), ('offset', 17, 0), ('offset', 16, 3), ('offset_extended', 200, 1),
         ('offset_extended_sf', 6, -3), ('val_offset', 5, 1), ('val_offset_sf', 5, -1), ('register', 3, 4), ('expression', 8, BLK2), ('val_expression', 8, BLK0),
         ('restore', 6), ('restore', 16), ('restore_extended', 200), ('restore_extended', 16), ('remember_state',), ('restore_state',), ('GNU_args_size', 16),
         ('negate_ra_state',),
         # unsigned LEB128 operands whose last byte has bit 6 set (64..127, 8192..16383): a signed read turns them negative
         ('def_cfa', 7, 100), ('def_cfa_offset', 100), ('offset_extended', 70, 100), ('val_offset', 5, 100), ('GNU_args_size', 8200), ('def_cfa_register', 100), ('register', 70, 100),
         ('undefined', 100), ('same_value', 100), ('restore_extended', 100), ('expression', 100, BLK2), ('val_expression', 100, BLK0), ('def_cfa_sf', 100, -2), ('offset_extended_sf', 100, -3),
         ('val_offset_sf', 100, -1)]
    if not for_eh:
        L.append(('set_loc', 0x2000))
    return L


def well_formed(seq, cfa_is_reg=True):
    depth = 0
    reg = cfa_is_reg
    for ins in seq:
        m = ins[0]
        if m == 'remember_state':
            depth += 1
        elif m == 'restore_state':
            if depth == 0:
                return False
            depth -= 1
            reg = True if cfa_is_reg else reg     # conservative: state restored to a remembered one
        elif m in ('def_cfa', 'def_cfa_sf'):
            reg = True
        elif m == 'def_cfa_expression':
            reg = False
        elif m in ('def_cfa_register', 'def_cfa_offset', 'def_cfa_offset_sf') and not reg:
            return False
    return True


PROLOGUES = {
    'default': [('def_cfa', 7, 8), ('offset', 16, 1)],
    'empty': [],
    'only_nops': [('nop',), ('nop',)],
    'def_cfa_expression': [('def_cfa_expression', BLK2)],
    'register_rules_only': [('same_value', 3), ('undefined', 17)],
    'with_advance': [('def_cfa', 7, 8), ('advance_loc', 2), ('offset', 16, 1)],
    'long': [('def_cfa', 7, 8), ('offset', 16, 1), ('offset', 6, 2), ('register', 3, 4), ('val_offset', 5, 1), ('expression', 8, BLK2)],
}


def pad_to(b, align, body_start):
    """nop padding so that the entry length (after the initial length) is a multiple of `align`"""
    if not align:
        return b
    n = (-(len(b) - body_start)) % align
    return b + b'\0' * n


def build_debug_frame(dp, shape, prologue, seqs):
    """shape: dict(version, caf, daf, ra, order, align, aug).  seqs: FDE instruction lists (one per FDE).
    Returns (section bytes, expected entries)."""
    version, caf, daf, ra = shape.get('version', 1), shape.get('caf', 1), shape.get('daf', -8), shape.get('ra', 16)
    order = shape.get('order', 'CF')
    align = shape.get('align', 0)
    il = 4 if dp.fmt == 32 else 12
    cie_id = (1 << dp.fmt) - 1

    def cie_bytes(prol):
        b = dp.off(cie_id) + bytes([version]) + b'\0'
        if version >= 4:
            b += bytes([dp.addr, 0])
        b += leb.uleb(caf) + leb.sleb(daf) + (bytes([ra]) if version == 1 else leb.uleb(ra))
        ins = []
        for i in prol:
            e, x = cfi.enc_instr(i, dp)
            b += e
            ins.append(x)
        b = pad_to(b, align, 0)
        npad = len(b)
        return b, ins

    def fde_bytes(cie_off, loc, rng, seq):
        b = dp.off(cie_off) + dp.address(loc) + dp.address(rng)
        ins = []
        for i in seq:
            e, x = cfi.enc_instr(i, dp)
            b += e
            ins.append(x)
        return pad_to(b, align, 0), ins
    # plan: list of ('C', prologue) / ('F', cie index, seq)
    plan = {'CF': [('C', prologue), ('F', 0, 0)], 'CFF': [('C', prologue), ('F', 0, 0), ('F', 0, 1)], 'FC': [('F', 1, 0), ('C', prologue)],
            'C1C2F1F2': [('C', prologue), ('C', PROLOGUES['register_rules_only']), ('F', 0, 0), ('F', 1, 1)],
            'CFCF': [('C', prologue), ('F', 0, 0), ('C', PROLOGUES['with_advance']), ('F', 2, 1)]}[order]
    # sizes first (CIE pointers are fixed width so one pass suffices once offsets are known: do two passes)
    offs = [0] * len(plan)
    out = None
    for _ in range(2):
        buf = bytearray()
        recs = []
        for pi, item in enumerate(plan):
            offs[pi] = len(buf)
            if item[0] == 'C':
                body, ins = cie_bytes(item[1])
                recs.append(('CIE', offs[pi], body, ins, item[1]))
            else:
                seq = seqs[item[2] % len(seqs)]
                loc = 0x401000 + 0x100 * item[2]
                body, ins = fde_bytes(offs[item[1]], loc, 0x80 + item[2], seq)
                recs.append(('FDE', offs[pi], body, ins, seq, item[1], loc, 0x80 + item[2]))
            buf += dp.initial_length(len(body)) + body
        out = (bytes(buf), recs)
    data, recs = out
    exp = []
    cie_state = {}
    for pi, r in enumerate(recs):
        if r[0] == 'CIE':
            rows, order_ = cfi.interpret(r[4], caf, daf)
            cie_state[pi] = (rows, order_)
            hdr = dict(length=len(r[2]), CIE_id=cie_id, version=version, augmentation=b'', code_alignment_factor=caf, data_alignment_factor=daf,
                       return_address_register=ra)
            if version >= 4:
                hdr.update(address_size=dp.addr, segment_size=0)
            exp.append(dict(kind='CIE', offset=r[1], header=hdr, instructions=r[3] + [(0, [])] * (len(r[2]) - _len_noPad(r, dp, version, caf, daf, ra)), rows=rows,
                            order=order_, aug_bytes=b'', aug_dict={}))
    for pi, r in enumerate(recs):
        if r[0] == 'FDE':
            crow, corder = cie_state[r[5]]
            rows, order_ = cfi.interpret(r[4], caf, daf, initial=(crow[-1] if crow else None), initial_order=corder, is_fde=True, pc0=r[6])
            hdr = dict(length=len(r[2]), CIE_pointer=offs[r[5]], initial_location=r[6], address_range=r[7])
            npad = len(r[2]) - (dp.osz + 2 * dp.addr + sum(len(cfi.enc_instr(i, dp)[0]) for i in r[4]))
            exp.append(dict(kind='FDE', offset=r[1], header=hdr, instructions=r[3] + [(0, [])] * npad, rows=rows, order=order_, cie_offset=offs[r[5]], lsda=None,
                            aug_bytes=b''))
    exp.sort(key=lambda e: e['offset'])
    return data, exp


def _len_noPad(r, dp, version, caf, daf, ra):
    n = dp.osz + 1 + 1 + (2 if version >= 4 else 0) + len(leb.uleb(caf)) + len(leb.sleb(daf)) + (1 if version == 1 else len(leb.uleb(ra)))
    return n + sum(len(cfi.enc_instr(i, dp)[0]) for i in r[4])


def pick_value(enc, fa, default, k=0):
    """A target the encoding can represent: pc-relative targets sit near the field (behind it for signed encodings)."""
    base = enc & 0x0f
    if (enc & 0x70) == 0x10:
        if base in (0x09, 0x0a, 0x0b, 0x0c) and fa >= 0x40:
            return fa - 0x20 - k
        return fa + 0x30 + k
    if base in (2, 0x0a):
        return 0x1234 + k
    if base in (3, 0x0b):
        return 0x7f001234 + k if base == 3 else 0x12345678 + k
    return default + k


def build_eh_frame(dp, shape, prologue, seqs, address):
    """32-bit .eh_frame.  shape: aug string, fde_enc, lsda_enc, pers_enc, terminator, version, caf/daf, align."""
    aug = shape.get('aug', 'zR')
    fde_enc = shape.get('fde_enc', 0x1b)
    lsda_enc = shape.get('lsda_enc', 0x1b)
    pers_enc = shape.get('pers_enc', 0x03)
    version, caf, daf, ra = shape.get('version', 1), shape.get('caf', 1), shape.get('daf', -8), shape.get('ra', 16)
    align = shape.get('align', 4)
    term = shape.get('terminator', 'end')
    nfde = shape.get('fdes', 1)
    buf = bytearray()
    exp = []
    # CIE
    body = dp.u(4, 0) + bytes([version]) + aug.encode() + b'\0' + leb.uleb(caf) + leb.sleb(daf) + (bytes([ra]) if version == 1 else leb.uleb(ra))
    aug_dict = {}
    augdata = b''
    pers_value = 0x401234
    if aug.startswith('z'):
        # augmentation data is laid out in string order; its own position is needed for pcrel personality
        data_start = 4 + len(body) + 1      # after a 1-byte length
        for c in aug[1:]:
            if c == 'L':
                augdata += bytes([lsda_enc])
                aug_dict['LSDA_encoding'] = lsda_enc
            elif c == 'R':
                augdata += bytes([fde_enc])
                aug_dict['FDE_encoding'] = fde_enc
            elif c == 'P':
                fa = address + data_start + len(augdata) + 1
                pers_value = pick_value(pers_enc, fa, 0x401234)
                pb = cfi.enc_pointer(pers_value, pers_enc, dp, fa)
                augdata += bytes([pers_enc]) + pb
                raw = pers_value - fa if (pers_enc & 0x70) == 0x10 else pers_value
                w = cfi.pointer_width(pers_enc, dp)
                if (pers_enc & 0x0f) in (0, 2, 3, 4):
                    raw &= (1 << (8 * w)) - 1
                aug_dict['personality'] = {'encoding': pers_enc, 'function': raw}
            elif c == 'S':
                pass
        aug_dict['length'] = len(augdata)
        body += leb.uleb(len(augdata)) + augdata
    cie_ins = []
    for i in prologue:
        e, x = cfi.enc_instr(i, dp)
        body += e
        cie_ins.append(x)
    unpadded = len(body)
    body = pad_to(body, align, -4)
    buf += dp.u(4, len(body)) + body
    crow, corder = cfi.interpret(prologue, caf, daf)
    exp.append(dict(kind='CIE', offset=0, header=dict(length=len(body), CIE_id=0, version=version, augmentation=aug.encode(), code_alignment_factor=caf,
                                                      data_alignment_factor=daf, return_address_register=ra),
                    instructions=cie_ins + [(0, [])] * (len(body) - unpadded), rows=crow, order=corder, aug_bytes=augdata, aug_dict=aug_dict))
    eff_fde_enc = fde_enc if 'R' in aug and aug.startswith('z') else 0x00
    has_lsda = aug.startswith('z') and 'L' in aug and lsda_enc != 0xff
    for k in range(nfde):
        seq = seqs[k % len(seqs)]
        off = len(buf)
        rng = 0x40 + k
        fb = dp.u(4, off + 4 - 0)                   # CIE_pointer: distance from this field back to the CIE
        fa = address + off + 8
        loc = pick_value(eff_fde_enc, fa, 0x401000 + 0x100 * k, k)
        fb += cfi.enc_pointer(loc, eff_fde_enc, dp, fa)
        fb += cfi.enc_pointer(rng, eff_fde_enc & 0x0f, dp, 0)
        lsda = None
        fde_aug = b''
        if aug.startswith('z'):
            if has_lsda:
                la = address + off + 4 + len(fb) + 1
                lsda = pick_value(lsda_enc, la, 0x402000 + 8 * k, k)
                fde_aug = cfi.enc_pointer(lsda, lsda_enc, dp, la)
            fb += leb.uleb(len(fde_aug)) + fde_aug
        ins = []
        for i in seq:
            e, x = cfi.enc_instr(i, dp)
            fb += e
            ins.append(x)
        unp = len(fb)
        fb = pad_to(fb, align, -4)
        buf += dp.u(4, len(fb)) + fb
        rows, order_ = cfi.interpret(seq, caf, daf, initial=(crow[-1] if crow else None), initial_order=corder, is_fde=True, pc0=loc)
        exp.append(dict(kind='FDE', offset=off, header=dict(length=len(fb), CIE_pointer=off + 4, initial_location=loc, address_range=rng),
                        instructions=ins + [(0, [])] * (len(fb) - unp), rows=rows, order=order_, cie_offset=0, lsda=lsda, aug_bytes=fde_aug))
    if term == 'end':
        exp.append(dict(kind='ZERO', offset=len(buf)))
        buf += b'\0\0\0\0'
    return bytes(buf), exp


def norm_rule(cfa):
    if cfa.expr is not None:
        return ('expr', list(cfa.expr))
    if cfa.reg is None:
        return None
    return ('reg', cfa.reg, cfa.offset)


def compare(entries, exp, fails):
    if isinstance(entries, Raised) or len(entries) != len(exp):
        fails.append(('entries', [e['kind'] for e in exp], entries if isinstance(entries, Raised) else [type(x).__name__ for x in entries]))
        return
    nrows = 0
    for i, (g, e) in enumerate(zip(entries, exp)):
        p = 'entries[%d:%s]' % (i, e['kind'])
        if type(g).__name__ != e['kind']:
            fails.append((p + ' kind', e['kind'], type(g).__name__))
            continue
        if g.offset != e['offset']:
            fails.append((p + '.offset', e['offset'], g.offset))
        if e['kind'] == 'ZERO':
            continue
        hdr = guarded(lambda: plain(g.header))
        for k, v in e['header'].items():
            if (hdr.get(k) if isinstance(hdr, dict) else hdr) != v:
                fails.append(('%s.header.%s' % (p, k), v, hdr.get(k) if isinstance(hdr, dict) else hdr))
        gi = guarded(lambda: [(x.opcode, [list(a) if isinstance(a, list) else a for a in x.args]) for x in g.instructions])
        if gi != [(o, a) for o, a in e['instructions']]:
            fails.append((p + '.instructions', e['instructions'][:4], gi if isinstance(gi, Raised) else gi[:4]))
        if g.augmentation_bytes != e['aug_bytes']:
            fails.append((p + '.augmentation_bytes', e['aug_bytes'], g.augmentation_bytes))
        if e['kind'] == 'CIE':
            ad = guarded(lambda: plain(g.augmentation_dict))
            ad = {k: v for k, v in ad.items() if isinstance(k, str)} if isinstance(ad, dict) else ad
            if ad != e['aug_dict']:
                fails.append((p + '.augmentation_dict', e['aug_dict'], ad))
        else:
            co = guarded(lambda: g.cie.offset)
            if co != e['cie_offset']:
                fails.append((p + '.cie.offset', e['cie_offset'], co))
            if g.lsda_pointer != e['lsda']:
                fails.append((p + '.lsda_pointer', e['lsda'], g.lsda_pointer))
        dec = guarded(g.get_decoded)
        if isinstance(dec, Raised):
            fails.append((p + '.get_decoded()', '%d rows' % len(e['rows']), dec))
            continue
        rows = []
        for row in dec.table:
            regs = {k: (v.type, (list(v.arg) if isinstance(v.arg, list) else v.arg)) for k, v in row.items() if k not in ('pc', 'cfa')}
            rows.append({'pc': row['pc'], 'cfa': norm_rule(row['cfa']), 'regs': regs})
        nrows += len(rows)
        er = e['rows']
        if len(rows) != len(er):
            fails.append((p + '.get_decoded().table rows', len(er), len(rows)))
        else:
            for j, (a, b) in enumerate(zip(rows, er)):
                if a['pc'] != b['pc']:
                    fails.append(('%s.table[%d].pc' % (p, j), b['pc'], a['pc']))
                ecfa = b['cfa']
                acfa = a['cfa']
                if ecfa is not None and ecfa[0] == 'reg' and acfa is not None and acfa[0] == 'reg':
                    # an offset/register the reference leaves undefined (None) is not compared
                    acfa = ('reg', acfa[1] if ecfa[1] is not None else None, acfa[2] if ecfa[2] is not None else None)
                if acfa != ecfa:
                    fails.append(('%s.table[%d].cfa' % (p, j), ecfa, a['cfa']))
                if a['regs'] != b['regs']:
                    k = sorted(set(a['regs']) ^ set(b['regs']) | {r for r in a['regs'] if r in b['regs'] and a['regs'][r] != b['regs'][r]})[0]
                    fails.append(('%s.table[%d].r%d' % (p, j, k), b['regs'].get(k), a['regs'].get(k)))
        if list(dec.reg_order) != e['order']:
            fails.append((p + '.get_decoded().reg_order', e['order'], list(dec.reg_order)))
        d2 = guarded(g.get_decoded)
        if d2 is not dec and (isinstance(d2, Raised) or len(d2.table) != len(dec.table)):
            fails.append((p + '.get_decoded() repeated', 'same table', d2))
        if len(fails) > 6:
            break
    return nrows


PARAMS = [(le, fmt, addr) for le in (True, False) for fmt in (32, 64) for addr in (8, 4)]


def check_case(kind, shape, prol_name, seq_pair, pi, address=0):
    le, fmt, addr = PARAMS[pi]
    if kind == 'eh':
        fmt = 32
    dp = DP(le, fmt, addr, 4)
    prologue = PROLOGUES[prol_name]
    if kind == 'debug':
        data, exp = build_debug_frame(dp, shape, prologue, seq_pair)
        secs = {'.debug_frame': data}
    else:
        data, exp = build_eh_frame(dp, shape, prologue, seq_pair, address)
        secs = {'.eh_frame': data}
    fails = []
    dw = guarded(dg.make_dwarfinfo, secs, le, addr, 'x64', {'.eh_frame': address})
    if isinstance(dw, Raised):
        return [('DWARFInfo()', 'constructs', dw)], data, repr(dw), 0
    ents = guarded(dw.CFI_entries if kind == 'debug' else dw.EH_CFI_entries)
    nrows = compare(ents, exp, fails) or 0
    return fails, data + bytes([pi, address & 0xff]), repr([(e['kind'], e.get('rows')) for e in exp])[:4000], nrows


def _cases(tier):
    quick = tier == 'quick'
    A = alphabet(False)
    AE = alphabet(True)
    L = 3
    idx = 0
    # A: default shape, default prologue, all sequences <= L
    for n in range(0, L + 1):
        for seq in itertools.product(A, repeat=n):
            if not well_formed(seq):
                continue
            for pi in (range(8) if (n < 3 or not quick) else (0, 7)):
                yield {'kind': 'debug', 'shape': {}, 'prologue': 'default', 'seq': [list(x) for x in seq], 'param': pi, 'address': 0}
    # B: prologue variants x sequences <= L-1 (<= 2 thorough)
    for pn in PROLOGUES:
        if pn == 'default':
            continue
        reg = pn in ('with_advance', 'long')
        for n in range(0, (1 if quick else 2) + 1):
            for seq in itertools.product(A, repeat=n):
                if not well_formed(seq, cfa_is_reg=reg):
                    continue
                for pi in (0, 7, 2, 5):
                    yield {'kind': 'debug', 'shape': {}, 'prologue': pn, 'seq': [list(x) for x in seq], 'param': pi, 'address': 0}
    # C: .debug_frame shape deviations x sequences <= 1
    shapes = [{'version': 3}, {'version': 4}, {'caf': 4}, {'daf': -4}, {'daf': 1}, {'daf': 8}, {'ra': 0}, {'ra': 200, 'version': 3}, {'ra': 200, 'version': 1}, {'ra': 127, 'version': 3}, {'ra': 128, 'version': 4}, {'order': 'CFF'}, {'order': 'FC'},
              {'order': 'C1C2F1F2'}, {'order': 'CFCF'}, {'align': 4}, {'align': 8}, {'caf': 4, 'daf': -4, 'version': 4, 'order': 'CFCF', 'align': 8}]
    for sh in shapes:
        for n in range(0, 2):
            for seq in itertools.product(A, repeat=n):
                if not well_formed(seq):
                    continue
                for pi in range(8):
                    yield {'kind': 'debug', 'shape': sh, 'prologue': 'default', 'seq': [list(x) for x in seq], 'param': pi, 'address': 0}
    # D: .eh_frame shapes x sequences <= 1
    encs = [0x00, 0x01, 0x02, 0x03, 0x04, 0x09, 0x0a, 0x0b, 0x0c]
    eshapes = [{}]
    for a in ('', 'z', 'zL', 'zP', 'zS', 'zLR', 'zPLR', 'zRS', 'zPLRS', 'zR'):
        eshapes.append({'aug': a, 'fde_enc': 0x1b, 'lsda_enc': 0x1b})
        eshapes.append({'aug': a, 'fde_enc': 0x00, 'lsda_enc': 0x00, 'pers_enc': 0x00})
    for e in encs:
        for mod in (0, 0x10):
            eshapes.append({'aug': 'zR', 'fde_enc': e | mod})
            eshapes.append({'aug': 'zLR', 'fde_enc': 0x1b, 'lsda_enc': e | mod})
            eshapes.append({'aug': 'zPLR', 'fde_enc': 0x1b, 'lsda_enc': 0x1b, 'pers_enc': e | mod})
    eshapes += [{'aug': 'zLR', 'lsda_enc': 0xff}, {'terminator': 'absent'}, {'fdes': 3}, {'version': 3, 'ra': 200}, {'version': 1, 'ra': 200}, {'caf': 4, 'daf': -4}, {'align': 8}]
    for sh in eshapes:
        for address in (0, 0x1000, 0x7fff0000):
            for n in range(0, 2):
                for seq in itertools.product(AE, repeat=n):
                    if not well_formed(seq):
                        continue
                    for pi in ((0, 3, 4, 7) if n else range(8)):
                        if PARAMS[pi][1] == 64:
                            continue
                        yield {'kind': 'eh', 'shape': sh, 'prologue': 'default', 'seq': [list(x) for x in seq], 'param': pi, 'address': address}
    # eh_frame with all sequences <= 2 on one corner (thorough)
    if not quick:
        for seq in itertools.product(AE, repeat=2):
            if well_formed(seq):
                yield {'kind': 'eh', 'shape': {}, 'prologue': 'default', 'seq': [list(x) for x in seq], 'param': 0, 'address': 0x1000}


def _run_desc(desc):
    seq = [tuple(x) for x in desc['seq']]
    other = [('advance_loc', 4), ('def_cfa', 7, 32), ('offset', 3, 4)]
    return check_case(desc['kind'], desc['shape'], desc['prologue'], [seq, other], desc['param'], desc['address'])


def _make_part(tier):
    def fn(part, nparts):
        r = BulkResult()
        for i, desc in enumerate(_cases(tier)):
            if i % nparts != part:
                continue
            fails, data, out, nrows = _run_desc(desc)
            r.evaluations += 1
            r.states.add(core.digest(data))
            r.outcomes.add(core.digest(out))
            if nrows > 1:
                r.nontrivial += 1
            if fails:
                f = fails[0]
                r.fails.append((desc, f[0], f[1], f[2]))
            if r.sample is None and part == 5 and len(desc['seq']) == 2:
                r.sample = {'case': desc, 'rows': nrows}
        return r
    return fn


def _replay(desc):
    return _run_desc(desc)[0]


def spaces(tier, seed):
    return [BulkSpace('cfi-sequences', _make_part(tier), 256, _replay,
                      rule='(A) default [CIE,FDE] .debug_frame, default CIE prologue: ALL FDE sequences over the %d-letter DW_CFA alphabet of length <= %d (malformed ones excluded) x order x format x address '
                           'size; (B) 6 CIE-prologue variants x sequences <= %d; (C) 15 .debug_frame shapes (CIE v1/3/4, code/data alignment, RA register, orders incl. FDE before CIE, two CIEs, padding) x '
                           'sequences <= 1; (D) ~80 .eh_frame shapes (10 augmentation strings, 9 pointer encodings x {abs,pcrel} for FDE/LSDA/personality, LSDA omit, terminator, 3 FDEs, v3) x section address '
                           '{0,0x1000,0x7fff0000} x sequences <= 1; non-trivial = more than one decoded row' % ((len(alphabet(False)), 3, 1) if tier == 'quick' else (len(alphabet(False)), 3, 2)))]
