"""C08 — relocation tables decode exactly; debug-section relocation follows the psABI.

(a) REL/RELA sections incl. the MIPS64 packed r_info layout (E1);
(b) RELR: ALL word sequences up to length L over an anchor/bitmap alphabet vs the RELR
    specification (E3, complete);
(c) application: an ET_REL image whose .debug_info carries relocations of every supported
    (machine, type) pair; oracle = psABI formulas written out here, truncated to the field
    width, in the file's byte order, every other byte unchanged; rejection cases.
"""
import io
import itertools
import json
import os
import struct
import zlib

from mcx import core, elfgen as eg
from mcx.core import Case, ChoiceSpace, ListSpace, guarded, Raised
from mcx.observe import plain
from mcx.props.c09 import expected_relr

ID = 'C08'
LEVEL = 'model_checking'
ASSUMPTIONS = ['psABI formulas: S+A, S+A-P, V+S+A, V-S-A with A in place for REL; P = r_offset within the relocated section (sh_addr = 0 in ET_REL)',
               'R_ARM_CALL and the BPF recipes are outside the property\'s list and are not generated']
SEED = 0
ROOT = os.path.dirname(os.path.dirname(os.path.dirname(os.path.abspath(__file__))))
_R = None


def R(name):
    """Relocation numbers from the vendored registries (never from elftools)."""
    global _R
    if _R is None:
        src = dict(json.load(open(os.path.join(ROOT, 'registry', 'registry.json')))['sources'])
        src.update(json.load(open(os.path.join(ROOT, 'registry', 'abi_documents.json')))['sources'])
        _R = {}
        for s in src.values():
            for k, v in s.items():
                if k.startswith('R_'):
                    _R.setdefault(k, v)
    return _R[name]


# ---- (a) tables -------------------------------------------------------------------------------

def run_tables(ch):
    cls = ch.free('class', [64, 32])
    le = ch.free('data', [True, False])
    machine = ch.pick('e_machine', [62, 8, 3, 183])
    rela = ch.pick('flavour', ['RELA', 'REL']) == 'RELA'
    count = ch.pick('count', [3, 0, 1, 40])
    img = eg.Img(cls, le, machine=machine, etype=1, seed=SEED)
    f = img.f
    mips64 = machine == 8 and cls == 64
    symmax = 0xffffff if cls == 32 else 0xffffffff
    typemax = 0xff if cls == 32 or mips64 else 0xffffffff
    p_off = ch.pick('probe.r_offset', [0x10, 0, 1, f.mask])
    p_sym = ch.pick('probe.sym', [1, 0, 0xff, 0x100, symmax])
    p_type = ch.pick('probe.type', [2, 0, 1, 0xff, 0x100 & typemax, typemax])
    p_add = ch.pick('probe.addend', [8, 0, 1, -1, -(1 << (cls - 1)), (1 << (cls - 1)) - 1])
    p_sub = ch.pick('probe.mips_subfields', [(0, 0, 0), (1, 2, 3), (0xff, 0xff, 0xff)]) if mips64 else (0, 0, 0)
    ents = []
    for i in range(count):
        e = dict(off=0x100 + 8 * i, sym=(i + 1) & symmax, type=(i + 1) & typemax, add=-i, sub=(0, 0, 0))
        if i == 0:
            e = dict(off=p_off, sym=p_sym, type=p_type, add=p_add, sub=p_sub)
        ents.append(e)

    def enc(e):
        if mips64:
            body = f.addr(e['off']) + f.word(e['sym']) + bytes([e['sub'][0], e['sub'][2], e['sub'][1], e['type']])
        else:
            body = f.rel(e['off'], f.r_info(e['sym'], e['type']))
        if rela:
            body += f.pack(f.SA, e['add'])
        return body
    body = b''.join(enc(e) for e in ents)
    img.null()
    strs = img.add(eg.Sec('.strtab', 3, data=b'\0a\0'))
    symtab = img.add(eg.Sec('.symtab', 2, data=f.sym(0, 0, 0, 0, 0, 0) + b''.join(f.sym(1, 0x1000 + 16 * i, 4, 0x12, 0, 0xfff1) for i in range(max(count, 1) + 1)),
                            link=strs.index, info=1, entsize=f.symsize, align=8))
    lead = ch.pick('file_position', [8, 1])
    rs = img.add(eg.Sec('.rela.text' if rela else '.rel.text', 4 if rela else 9, data=body, link=symtab.index, info=1,
                        entsize=f.relasize if rela else f.relsize, align=8, file_align=lead))
    img.add_shstrtab()
    data = img.encode()
    from elftools.elf.elffile import ELFFile
    fails = []
    elf = guarded(ELFFile, io.BytesIO(data))
    if isinstance(elf, Raised):
        return Case([('ELFFile()', 'constructs', elf)], data, repr(elf))
    sec = guarded(elf.get_section, rs.index)
    if type(sec).__name__ != 'RelocationSection':
        return Case([('class', 'RelocationSection', sec)], data, repr(sec))
    if guarded(sec.is_RELA) != rela:
        fails.append(('is_RELA()', rela, guarded(sec.is_RELA)))
    if guarded(sec.num_relocations) != count:
        fails.append(('num_relocations()', count, guarded(sec.num_relocations)))
    got = guarded(lambda: [(plain(r.entry), r.is_RELA()) for r in sec.iter_relocations()])
    exp = []
    for e in ents:
        if mips64:
            info = (e['sym'] << 32) | (e['sub'][0] << 24) | (e['sub'][2] << 16) | (e['sub'][1] << 8) | e['type']
            d = dict(r_offset=e['off'] & f.mask, r_sym=e['sym'], r_ssym=e['sub'][0], r_type3=e['sub'][2], r_type2=e['sub'][1], r_type=e['type'],
                     r_info_sym=e['sym'], r_info_ssym=e['sub'][0], r_info_type=e['type'], r_info_type2=e['sub'][1], r_info_type3=e['sub'][2], r_info=info)
        else:
            d = dict(r_offset=e['off'] & f.mask, r_info=f.r_info(e['sym'], e['type']), r_info_sym=e['sym'], r_info_type=e['type'])
        if rela:
            d['r_addend'] = e['add']
        exp.append((d, rela))
    if got != exp:
        bad = next((i for i in range(min(len(exp), len(got) if not isinstance(got, Raised) else 0)) if got[i] != exp[i]), 0)
        fails.append(('iter_relocations()[%d]' % bad, exp[bad] if exp else None, got if isinstance(got, Raised) else (got[bad] if bad < len(got) else len(got))))
    for i in (0, count - 1):
        if 0 <= i < count:
            g = guarded(lambda: plain(sec.get_relocation(i).entry))
            if g != exp[i][0]:
                fails.append(('get_relocation(%d)' % i, exp[i][0], g))
    return Case(fails, data, repr(got)[:2000], nontrivial=count > 0,
                sample={'class': cls, 'le': le, 'machine': machine, 'rela': rela, 'entries': [(hex(e['off'] & f.mask), e['sym'], e['type'], e['add']) for e in ents[:3]]}, checks=count + 3)


# ---- (b) RELR ---------------------------------------------------------------------------------

def _relr_gen_factory(maxlen):
    def gen():
        for cls in (64, 32):
            bits = cls
            top = 1 << (bits - 1)
            letters = {'a1': 0x1000, 'a2': 0x1100, 'b_empty': 1, 'b_first': 0b11, 'b_second': 0b101, 'b_all': (1 << bits) - 1, 'b_top': top | 1,
                       'b_mixed': 0x5a5 | 1}
            names = list(letters)
            for le in (True, False):
                for n in range(0, maxlen + 1):
                    for seq in itertools.product(names, repeat=n):
                        if seq and not seq[0].startswith('a'):
                            continue
                        yield {'class': cls, 'le': le, 'words': [letters[s] for s in seq], 'letters': list(seq)}
    return gen


def _relr_check(desc):
    cls, le, words = desc['class'], desc['le'], desc['words']
    img = eg.Img(cls, le, seed=SEED)
    f = img.f
    img.null()
    rs = img.add(eg.Sec('.relr.dyn', 19, data=b''.join(f.addr(w) for w in words), flags=2, entsize=f.wordsize, align=8))
    img.add_shstrtab()
    data = img.encode()
    from elftools.elf.elffile import ELFFile
    fails = []
    elf = guarded(ELFFile, io.BytesIO(data))
    if isinstance(elf, Raised):
        return [('ELFFile()', 'constructs', elf)], True, repr(elf), data
    sec = guarded(elf.get_section, rs.index)
    if type(sec).__name__ != 'RelrRelocationSection':
        return [('class', 'RelrRelocationSection', sec)], True, repr(sec), data
    exp = expected_relr(words, f.wordsize)
    got = guarded(lambda: [r['r_offset'] for r in sec.iter_relocations()])
    if got != exp:
        fails.append(('iter_relocations()', exp[:8], got if isinstance(got, Raised) else got[:8]))
    n = guarded(sec.num_relocations)
    if n != len(exp):
        fails.append(('num_relocations()', len(exp), n))
    if exp:
        for i in (0, len(exp) - 1):
            g = guarded(lambda: sec.get_relocation(i)['r_offset'])
            if g != exp[i]:
                fails.append(('get_relocation(%d)' % i, exp[i], g))
    return fails, len(exp) > 0, len(exp), data


# ---- (c) application -----------------------------------------------------------------------------

def _recipes():
    """machine label -> (e_machine, class, orders, flavour, {type: (width, formula)})"""
    t = {
        'x86': (3, 32, [True], 'REL', {R('R_386_NONE'): (0, 'none'), R('R_386_32'): (4, 'S+A'), R('R_386_PC32'): (4, 'S+A-P')}),
        'x64': (62, 64, [True], 'RELA', {R('R_X86_64_NONE'): (0, 'none'), R('R_X86_64_64'): (8, 'S+A'), R('R_X86_64_PC32'): (4, 'S+A-P'),
                                         R('R_X86_64_32'): (4, 'S+A'), R('R_X86_64_32S'): (4, 'S+A')}),
        'arm': (40, 32, [True, False], 'REL', {R('R_ARM_ABS32'): (4, 'S+A')}),
        'aarch64': (183, 64, [True, False], 'RELA', {R('R_AARCH64_ABS64'): (8, 'S+A'), R('R_AARCH64_ABS32'): (4, 'S+A'), R('R_AARCH64_PREL32'): (4, 'S+A-P')}),
        'mips_rel': (8, 32, [True, False], 'REL', {R('R_MIPS_NONE'): (0, 'none'), R('R_MIPS_32'): (4, 'S+A')}),
        'mips_rela': (8, 64, [True, False], 'RELA', {R('R_MIPS_NONE'): (0, 'none'), R('R_MIPS_32'): (4, 'S+A'), R('R_MIPS_64'): (8, 'S+A')}),
        'ppc64': (21, 64, [False, True], 'RELA', {R('R_PPC64_ADDR32'): (4, 'S+A'), R('R_PPC64_REL32'): (4, 'S+A-P'), R('R_PPC64_ADDR64'): (8, 'S+A')}),
        's390x': (22, 64, [False], 'RELA', {R('R_390_32'): (4, 'S+A'), R('R_390_PC32'): (4, 'S+A-P'), R('R_390_64'): (8, 'S+A')}),
        'loongarch': (258, 64, [True], 'RELA', {R('R_LARCH_NONE'): (0, 'none'), R('R_LARCH_32'): (4, 'S+A'), R('R_LARCH_64'): (8, 'S+A'),
                                                R('R_LARCH_ADD8'): (1, 'V+S+A'), R('R_LARCH_SUB8'): (1, 'V-S-A'), R('R_LARCH_ADD16'): (2, 'V+S+A'),
                                                R('R_LARCH_SUB16'): (2, 'V-S-A'), R('R_LARCH_ADD32'): (4, 'V+S+A'), R('R_LARCH_SUB32'): (4, 'V-S-A'),
                                                R('R_LARCH_ADD64'): (8, 'V+S+A'), R('R_LARCH_SUB64'): (8, 'V-S-A'), R('R_LARCH_32_PCREL'): (4, 'S+A-P'),
                                                R('R_LARCH_64_PCREL'): (8, 'S+A-P')}),
    }
    # the recipes are per machine, not per class: the ELF32 flavours of the same machines (x32, LoongArch32, MIPS n32-style RELA) keep their 8-byte types
    t['x64_x32'] = (62, 32, [True], 'RELA', t['x64'][4])
    t['loongarch32'] = (258, 32, [True], 'RELA', t['loongarch'][4])
    t['mips_rela32'] = (8, 32, [True, False], 'RELA', t['mips_rela'][4])
    return t


def apply_ref(buf, le, relocs, symvals, rela, table):
    """Reference application; relocs = [(offset, sym, type, addend)].  Returns None if an error is due."""
    order = 'little' if le else 'big'
    for off, sym, t, add in relocs:
        if sym >= len(symvals) or t not in table:
            return None
        w, formula = table[t]
        if w == 0:
            continue
        S = symvals[sym]
        V = int.from_bytes(buf[off:off + w], order)
        A = add if rela else V
        if formula == 'S+A':
            r = S + A
        elif formula == 'S+A-P':
            r = S + A - off
        elif formula == 'V+S+A':
            r = V + S + add
        elif formula == 'V-S-A':
            r = V - S - add
        buf[off:off + w] = (r % (1 << (8 * w))).to_bytes(w, order)
    return buf


PAYLOAD = 64


def run_apply(ch):
    recs = _recipes()
    mlabel = ch.free('machine', list(recs))
    machine, cls, orders, flavour, table = recs[mlabel]
    le = ch.free('order', orders)
    types = sorted(table)
    t = ch.free('type', types)
    img = eg.Img(cls, le, machine=machine, etype=1, seed=SEED)
    f = img.f
    w = table[t][0]
    symval = ch.pick('symbol_value', [0x1000, 0, 0x7fffffff, 0xffffffff, 1 << 63, (1 << 64) - 1]) & f.mask
    addend = ch.pick('addend', [8, 0, -4, -(1 << (cls - 1)), (1 << (cls - 1)) - 1])
    inplace = ch.pick('in_place', ['zero', 'x10', 'ones', 'filler'])
    field = ch.pick('field_offset', [8, 0, 5, 'last'])
    nrel = ch.pick('relocations', ['one', 'two_fields', 'same_field', 'none'])
    symidx = ch.pick('symbol_index', [1, 0, 'last', 'count'])
    bad = ch.pick('rejection', [None, 'unsupported_type', 'wrong_flavour', 'unsupported_machine'])
    relocate = ch.pick('relocate_dwarf_sections', [True, False])
    # the relocated section may be stored compressed: r_offset then indexes the INFLATED data, far beyond the stored size
    shift = 4096 if ch.pick('target_storage', ['plain', 'compressed']) == 'compressed' else 0
    nsyms = 4
    symvals = [0, symval, 0x2000, 0xabcdef0123456789 & f.mask]
    sidx = {'last': nsyms - 1, 'count': nsyms}.get(symidx, symidx)
    ww = max(w, 1)
    # NONE types carry no field: any in-range offset is legal for them
    foff = {'last': PAYLOAD - ww}.get(field, field)
    payload = bytearray(eg.filler(SEED + 31, PAYLOAD))
    pat = {'zero': b'\0' * 8, 'x10': (0x10).to_bytes(8, 'little' if le else 'big')[:8], 'ones': b'\xff' * 8, 'filler': None}[inplace]

    def setfield(off, width):
        if pat is not None and width:
            val = {'zero': 0, 'x10': 0x10, 'ones': (1 << (8 * width)) - 1}[inplace]
            payload[off:off + width] = val.to_bytes(width, 'little' if le else 'big')
    relocs = []
    if nrel != 'none':
        setfield(foff, w)
        relocs.append((foff, sidx, t, addend))
        if nrel == 'two_fields':
            off2 = 24 if foff != 24 else 40
            t2 = types[-1]
            setfield(off2, table[t2][0])
            relocs.append((off2, 2, t2, 3))
        elif nrel == 'same_field':
            relocs.append((foff, 2, t, 1))
    rela = (flavour == 'RELA')
    use_machine = machine
    if bad == 'unsupported_type':
        relocs = [(0, 1, 0xee, 0)] if not relocs else [(relocs[0][0], relocs[0][1], 0xee, relocs[0][3])] + relocs[1:]
    elif bad == 'wrong_flavour' and not mlabel.startswith('mips'):
        rela = not rela
    elif bad == 'unsupported_machine':
        use_machine = 243
        img.machine = 243
    mips64 = (use_machine == 8 and cls == 64)

    def enc(off, sym, ty, add):
        if mips64:
            body = f.addr(off) + f.word(sym) + bytes([0, 0, 0, ty & 0xff])
        else:
            body = f.rel(off, f.r_info(sym, ty))
        return body + (f.pack(f.SA, add) if rela else b'')
    if shift:
        relocs = [(r[0] + shift,) + tuple(r[1:]) for r in relocs]
        payload = bytearray(b'\0' * shift + bytes(payload))
        foff += shift
    relbytes = b''.join(enc(*r) for r in relocs)
    img.null()
    strs = img.add(eg.Sec('.strtab', 3, data=b'\0s1\0s2\0s3\0'))
    symtab = img.add(eg.Sec('.symtab', 2, data=b''.join(f.sym((0, 1, 4, 7)[i], symvals[i], 0, 0x10 if i else 0, 0, 0xfff1 if i else 0) for i in range(nsyms)),
                            link=strs.index, info=1, entsize=f.symsize, align=8))
    if shift:
        info = img.add(eg.Sec('.debug_info', 1, data=f.chdr(1, len(payload), 1) + zlib.compress(bytes(payload), 9), flags=0x800))
    else:
        info = img.add(eg.Sec('.debug_info', 1, data=bytes(payload)))
    other_payload = eg.filler(SEED + 32, 48)
    line = img.add(eg.Sec('.debug_line', 1, data=other_payload))
    dstr = img.add(eg.Sec('.debug_str', 1, data=b'untouched\0strings\0', flags=0x30))
    abbrev = img.add(eg.Sec('.debug_abbrev', 1, data=b'\0'))
    rname = ('.rela' if rela else '.rel') + '.debug_info'
    if relocs or True:
        img.add(eg.Sec(rname, 4 if rela else 9, data=relbytes, link=symtab.index, info=info.index, entsize=f.relasize if rela else f.relsize, align=8, flags=0x40))
    img.add_shstrtab()
    data = img.encode()
    # expectation
    exp_err = None
    exp = bytes(payload)
    if relocate and relocs:
        if use_machine == 243:
            exp_err = 'ELFRelocationError'
        elif rela != (flavour == 'RELA'):
            exp_err = 'ELFRelocationError'
        else:
            r = apply_ref(bytearray(payload), le, relocs, symvals, rela, table)
            if r is None:
                exp_err = 'ELFRelocationError'
            else:
                exp = bytes(r)
    from elftools.elf.elffile import ELFFile
    fails = []
    elf = guarded(ELFFile, io.BytesIO(data))
    if isinstance(elf, Raised):
        return Case([('ELFFile()', 'constructs', elf)], data, repr(elf))
    dw = guarded(lambda: elf.get_dwarf_info(relocate_dwarf_sections=relocate))
    outc = None
    if exp_err:
        if not (isinstance(dw, Raised) and dw.isa(exp_err)):
            fails.append(('get_dwarf_info()', 'raises ' + exp_err, dw if isinstance(dw, Raised) else 'returned'))
    elif isinstance(dw, Raised):
        fails.append(('get_dwarf_info()', 'returns', dw))
    else:
        got = guarded(lambda: dw.debug_info_sec.stream.getvalue())
        outc = got
        if got != exp:
            diff = [i for i in range(min(len(got), len(exp))) if got[i] != exp[i]] if isinstance(got, bytes) else []
            fails.append(('.debug_info bytes', exp[foff:foff + 8].hex() + '@%d' % foff, (got[foff:foff + 8].hex() + ' differing offsets %r' % diff[:10]) if isinstance(got, bytes) else got))
        for secname, attr, want in (('.debug_line', 'debug_line_sec', other_payload), ('.debug_str', 'debug_str_sec', b'untouched\0strings\0')):
            g = guarded(lambda: getattr(dw, attr).stream.getvalue())
            if g != want:
                fails.append((secname + ' bytes', 'unchanged', g))
        g = guarded(lambda: (dw.debug_info_sec.size, dw.debug_info_sec.name))
        if g != (PAYLOAD + shift, '.debug_info'):
            fails.append(('debug_info_sec.size/name', (PAYLOAD + shift, '.debug_info'), g))
        # asking the same file object again - with the same flag, and with the other flag in between - gives the same bytes (relocations are applied to a
        # fresh copy of the section each time: REL addends live in the section bytes, so a second application on the same buffer doubles them)
        # (applying S+A / S+A-P RELA relocations a second time to the same buffer changes nothing, so the plain repetition is only run where it could be observed)
        observable = (not rela) or any(table.get(r_[2], (0, ''))[1].startswith('V') for r_ in relocs)
        for label, flags in ((('second get_dwarf_info()', [relocate]),) if observable else ()) + (('get_dwarf_info() after one with the other flag', [not relocate, relocate]),):
            for fl in flags:
                dw2 = guarded(lambda: elf.get_dwarf_info(relocate_dwarf_sections=fl))
            g = guarded(lambda: dw2.debug_info_sec.stream.getvalue())
            if g != exp:
                fails.append((label + ': .debug_info bytes', exp[foff:foff + 8].hex() + '@%d' % foff, (g[foff:foff + 8].hex() if isinstance(g, bytes) else g)))
            g = guarded(lambda: dw.debug_info_sec.stream.getvalue())
            if g != exp:
                fails.append((label + ': bytes of the FIRST DWARFInfo afterwards', exp[foff:foff + 8].hex() + '@%d' % foff, (g[foff:foff + 8].hex() if isinstance(g, bytes) else g)))
    # the file itself is never modified
    return Case(fails, data, repr((outc, exp_err)), nontrivial=bool(relocs) and relocate,
                sample={'machine': mlabel, 'le': le, 'type': t, 'formula': table[t][1], 'relocs': [(o_, s_, ty_, a_) for o_, s_, ty_, a_ in relocs], 'symval': hex(symval),
                        'expected': exp_err or exp[foff:foff + ww].hex()}, checks=4)


def spaces(tier, seed):
    global SEED
    SEED = seed
    quick = tier == 'quick'
    return [
        ChoiceSpace('reloc-tables', run_tables, 3 if quick else 5, rule='REL/RELA sections x machine {x86-64, MIPS (packed r_info on ELF64), 386, AArch64} x count {3,0,1,40} x probe r_offset/sym/type at 0,1,8/24/32-bit '
                    'boundaries x addend {8,0,1,-1,min,max} x MIPS64 ssym/type2/type3 x file position x class x order'),
        ListSpace('relr-all-sequences', _relr_gen_factory(4 if quick else 5), _relr_check,
                  rule='ALL word sequences of length <= %d that start with an anchor over {anchor a, anchor a+0x100, bitmap empty, first, second, all ones, top bit only, mixed} x class x order, '
                       'vs the RELR specification (address list)' % (4 if quick else 5)),
        ChoiceSpace('reloc-application', run_apply, 3 if quick else 5, rule='free: every supported (machine, type) pair of x86, x86-64, ARM ABS32, AArch64, MIPS REL, MIPS RELA, PPC64, S390x, LoongArch x byte orders; '
                    'picks: symbol value, addend, in-place value, field offset {8,0,5 unaligned,last}, relocation count {1, 2 fields, 2 on same field, 0}, symbol index {1,0,last,count}, '
                    'rejection {unsupported type, wrong flavour, unsupported machine}, relocate_dwarf_sections {True, False}', deadline_s=300 if quick else 3000),
    ]
