"""C14 — note sections and segments yield every note exactly once; stabs enumerate exactly.

E1 over a note extent (count, owner names of every residue mod 4 incl. none, descriptor sizes
of every residue mod 4, named GNU / core types, file type ET_DYN vs ET_CORE, a final note ending
exactly at the extent end incl. a header-only one), always reached both as SHT_NOTE section and
as PT_NOTE segment over the same bytes.  Descriptors of the known types are encoded by the
reference and compared field by field.
"""
import io
import struct

from mcx import core, elfgen as eg
from mcx.core import Case, ChoiceSpace, ListSpace, guarded, Raised
from mcx.observe import plain
from mcx.ref import names as nm

ID = 'C14'
LEVEL = 'model_checking'
ASSUMPTIONS = ['note layout per gABI (12-byte header, name and descriptor padded to 4 bytes)', 'owner names are ASCII with a terminating NUL counted in namesz']
SEED = 0

UGID16 = {40, 3, 22}        # EM_ARM, EM_386, EM_S390 (among the machines used here) have 16-bit uid/gid in 32-bit prpsinfo


def pad4(n):
    return (n + 3) & ~3


def enc_note(f, name, ntype, desc):
    nb = b'' if name is None else name.encode('latin-1') + b'\0'
    return (struct.pack(f.o + 'III', len(nb), len(desc), ntype) + nb + b'\0' * (pad4(len(nb)) - len(nb))
            + desc + b'\0' * (pad4(len(desc)) - len(desc)))


def enc_props(f, props):
    out = b''
    al = 4 if f.cls == 32 else 8
    for ptype, pdata in props:
        rec = struct.pack(f.o + 'II', ptype, len(pdata)) + pdata
        rec += b'\0' * ((-len(rec)) % al)
        out += rec
    return out


def exp_props(f, props):
    res = []
    for ptype, pdata in props:
        n = len(pdata)
        val = pdata
        if ptype == 1 and ((n == 4 and f.cls == 32) or (n == 8 and f.cls == 64)):
            val = int.from_bytes(pdata, 'little' if f.le else 'big')
        elif n == 4 and (0xc0000000 <= ptype <= 0xc0ffffff) and ptype in (0xc0000002, 0xc0008002, 0xc0010001, 0xc0010002, 0xc0000000):
            val = int.from_bytes(pdata, 'little' if f.le else 'big')
        res.append((ptype, n, val))
    return res


def enc_prpsinfo(f, machine, v):
    ug = 'H' if (f.cls == 32 and machine in UGID16) else 'I'
    if f.cls == 32:
        return struct.pack(f.o + 'BcBBI' + ug + ug + 'IIII16s80s', v['pr_state'], v['pr_sname'], v['pr_zomb'], v['pr_nice'], v['pr_flag'], v['pr_uid'],
                           v['pr_gid'], v['pr_pid'], v['pr_ppid'], v['pr_pgrp'], v['pr_sid'], v['pr_fname'], v['pr_psargs'])
    return struct.pack(f.o + 'BcBB4xQ' + 'II' + 'IIII16s80s', v['pr_state'], v['pr_sname'], v['pr_zomb'], v['pr_nice'], v['pr_flag'], v['pr_uid'],
                       v['pr_gid'], v['pr_pid'], v['pr_ppid'], v['pr_pgrp'], v['pr_sid'], v['pr_fname'], v['pr_psargs'])


def enc_ntfile(f, page, maps):
    out = struct.pack(f.o + f.A * 2, len(maps), page)
    for s, e, o, _ in maps:
        out += struct.pack(f.o + f.A * 3, s, e, o)
    for m in maps:
        out += m[3] + b'\0'
    return out


SKIP = object()
KNOWN_INT_PROPS = (0xc0000002, 0xc0008002, 0xc0010001, 0xc0010002, 0xc0000000)


def dec_props(f, d):
    """Reference decoder of a GNU property list (linux-abi draft): type, datasz, data, padding to 4/8."""
    al = 4 if f.cls == 32 else 8
    order = 'little' if f.le else 'big'
    out, pos = [], 0
    while pos < len(d):
        if pos + 8 > len(d):
            return None
        pt, n = struct.unpack_from(f.o + 'II', d, pos)
        pd = d[pos + 8:pos + 8 + n]
        if len(pd) != n:
            return None
        val = pd
        if pt == 1 and ((n == 4 and f.cls == 32) or (n == 8 and f.cls == 64)):
            val = int.from_bytes(pd, order)
        elif pt in KNOWN_INT_PROPS:
            if n != 4:
                return None         # malformed for its type: no expectation
            val = int.from_bytes(pd, order)
        out.append((pt, n, val))
        pos += (8 + n + al - 1) // al * al
    return out


def expected_desc(f, machine, core_file, owner, t, d):
    """(kind, value) the decoded descriptor must equal, or SKIP where the property defines nothing
    (core-file types under a foreign owner; descriptors malformed for their type)."""
    if not core_file:
        if owner != 'GNU':
            return ('raw', d)
        if t == 1:
            return ('abi', struct.unpack(f.o + 'IIII', d)) if len(d) == 16 else SKIP
        if t == 3:
            return ('hex', d.hex())
        if t == 4:
            return ('str', d.decode('latin-1'))
        if t == 5:
            pr = dec_props(f, d)
            return ('props', pr) if pr is not None else SKIP
        return ('raw', d)
    if t == 3:
        if owner != 'CORE' or len(d) != len(enc_prpsinfo(f, machine, PRPS)):
            return SKIP
        return ('prpsinfo', PRPS) if d == enc_prpsinfo(f, machine, PRPS) else SKIP
    if t == 0x46494c45:
        if owner != 'CORE':
            return SKIP
        w = f.wordsize
        try:
            n, page = struct.unpack_from(f.o + f.A * 2, d, 0)
            maps = []
            pos = 2 * w
            for i in range(n):
                maps.append(list(struct.unpack_from(f.o + f.A * 3, d, pos)))
                pos += 3 * w
            for i in range(n):
                e = d.index(b'\0', pos)
                maps[i].append(d[pos:e])
                pos = e + 1
            return ('ntfile', (page, [tuple(m) for m in maps]))
        except (struct.error, ValueError):
            return SKIP
    return ('raw', d)


PRPS = dict(pr_state=1, pr_sname=b'R', pr_zomb=0, pr_nice=0xec, pr_flag=0x00402600, pr_uid=1000, pr_gid=0xfffe, pr_pid=4242, pr_ppid=1, pr_pgrp=4242,
            pr_sid=0x7fffffff, pr_fname=b'prog\0\0\0\0\0\0\0\0\0\0\0\0', pr_psargs=(b'./prog --flag x' + b'\0' * 80)[:80])


def run_notes(ch):
    cls = ch.free('class', [64, 32])
    le = ch.free('data', [True, False])
    core_file = ch.pick('e_type', ['ET_DYN', 'ET_CORE']) == 'ET_CORE'
    machine = ch.pick('e_machine', [62, 3, 40, 183, 8])
    img = eg.Img(cls, le, machine=machine, etype=(4 if core_file else 3), seed=SEED)
    f = img.f
    count = ch.pick('count', [2, 0, 1, 5])
    pname = ch.pick('probe.name', ['GNU', None, 'CORE', 'a', 'ab', 'abc', 'abcd', 'abcde', 'LINUX\0\0', 'unknown-owner-1234'])
    pkind = ch.pick('probe.descriptor', ['abi_tag', 'raw4', 'raw0', 'raw1', 'raw2', 'raw3', 'raw5', 'raw16', 'raw300', 'abi_tag_max', 'abi_tag_unknown_os', 'build_id20', 'build_id0',
                                          'build_id1', 'gold', 'props0', 'props1', 'props3', 'props_stack8', 'props_stack4', 'props_odd12', 'props_unknown', 'props_last_empty', 'props_only_empty', 'prpsinfo',
                                          'ntfile0', 'ntfile1', 'ntfile3'])
    ptype_override = ch.pick('probe.n_type', [None, 0, 2, 6, 0x53494749, 0x46494c46, 0x100, 0xffffffff])
    final = ch.pick('final_note', ['as_is', 'header_only', 'name_only', 'desc_unpadded_len'])
    lead = ch.pick('lead_bytes', [0, 4, 20])

    o = f.o
    raw = {'raw4': 4, 'raw0': 0, 'raw1': 1, 'raw2': 2, 'raw3': 3, 'raw5': 5, 'raw16': 16, 'raw300': 300}
    desc_decoder = None
    ntype = 0x7001
    desc = b''
    if pkind in raw:
        desc = eg.filler(SEED + 11, raw[pkind])
    elif pkind.startswith('abi_tag'):
        osv = 77 if pkind == 'abi_tag_unknown_os' else 0
        sub = 0xffffffff if pkind == 'abi_tag_max' else 0
        desc, ntype = struct.pack(o + 'IIII', osv, 3, 2, sub), 1
        desc_decoder = ('abi', (osv, 3, 2, sub))
    elif pkind.startswith('build_id'):
        n = int(pkind[8:])
        desc, ntype = eg.filler(SEED + 5, n), 3
        desc_decoder = ('hex', desc.hex())
    elif pkind == 'gold':
        desc, ntype = b'gold 1.16\0', 4
        desc_decoder = ('str', desc.decode('latin-1'))
    elif pkind.startswith('props'):
        w = 4 if cls == 32 else 8
        props = {'props0': [], 'props1': [(0xc0000002, struct.pack(o + 'I', 3))],
                 'props3': [(0xc0000002, struct.pack(o + 'I', 3)), (2, b''), (0xc0008002, struct.pack(o + 'I', 0x1f))],
                 'props_stack8': [(1, struct.pack(o + 'Q', 0x100000))], 'props_stack4': [(1, struct.pack(o + 'I', 0x8000))],
                 'props_odd12': [(0xc0000000, struct.pack(o + 'I', 1)), (0x0badf00d, b'\1\2\3\4\5\6\7\x08\x09\x0a\x0b\x0c')],
                 'props_unknown': [(0x12345678, b'abc'), (0xc0010002, struct.pack(o + 'I', 9))],
                 # a record without data is exactly 8 bytes: as the LAST (or only) record it ends exactly at the end of the descriptor
                 'props_last_empty': [(0xc0000002, struct.pack(o + 'I', 3)), (2, b'')], 'props_only_empty': [(2, b'')]}[pkind]
        desc, ntype = enc_props(f, props), 5
        desc_decoder = ('props', exp_props(f, props))
    elif pkind == 'prpsinfo':
        desc, ntype = enc_prpsinfo(f, machine, PRPS), 3
        desc_decoder = ('prpsinfo', None)
    elif pkind.startswith('ntfile'):
        n = int(pkind[6:])
        maps = [(0x400000 + 0x1000 * i, 0x401000 + 0x1000 * i, i, b'/usr/lib/libx%d.so' % i) for i in range(n)]
        desc, ntype = enc_ntfile(f, 0x1000, maps), 0x46494c45
        desc_decoder = ('ntfile', (0x1000, maps))
    if ptype_override is not None:
        ntype = ptype_override
    notes = []      # (name, type, desc)
    if count >= 1:
        notes.append((pname, ntype, desc))
    if count >= 2:
        notes.append(('GNU', 3, bytes(range(20))))
    for i in range(2, count):
        notes.append((('X' * i), 0x200 + i, eg.filler(SEED + i, i)))
    if final == 'header_only' and notes:
        notes.append((None, 0x55, b''))
    elif final == 'name_only' and notes:
        notes.append(('END', 0x56, b''))
    blob = b''.join(enc_note(f, *n) for n in notes)
    if final == 'desc_unpadded_len' and notes:
        # the last descriptor's size is not a multiple of 4 but its padding is present (extent still ends on the padding)
        notes.append(('Z', 0x57, b'xyz'))
        blob += enc_note(f, 'Z', 0x57, b'xyz')
    img.null()
    if lead:
        img.add(eg.Sec('.lead', 1, data=b'\x5a' * lead, file_align=4))
    nsec = img.add(eg.Sec('.note.probe', 7, data=blob, flags=2, addr=0x400200, align=4, file_align=4))
    img.add_shstrtab()
    # the 4-byte padding rule does not depend on what the program header says about alignment
    img.seg(eg.Seg(4, flags=4, of=nsec, align=ch.pick('pt_note.p_align', [4, 8, 0, 1, 16])))
    data = img.encode()

    from elftools.elf.elffile import ELFFile
    fails = []
    elf = guarded(ELFFile, io.BytesIO(data))
    if isinstance(elf, Raised):
        return Case([('ELFFile()', 'constructs', elf)], data, repr(elf))
    views = []
    for label, getter in (('section', lambda: elf.get_section(nsec.index)), ('segment', lambda: elf.get_segment(0))):
        obj = guarded(getter)
        want = 'NoteSection' if label == 'section' else 'NoteSegment'
        if type(obj).__name__ != want:
            fails.append((label + ' class', want, obj))
            continue
        got = guarded(lambda: [plain(n) for n in obj.iter_notes()])
        if isinstance(got, Raised):
            fails.append((label + '.iter_notes()', '%d notes' % len(notes), got))
            continue
        views.append(got)
        if len(got) != len(notes):
            fails.append((label + '.iter_notes() count', len(notes), len(got)))
            continue
        off = nsec.offset
        for i, ((name, t, d), g) in enumerate(zip(notes, got)):
            nb = 0 if name is None else len(name) + 1
            size = 12 + pad4(nb) + pad4(len(d))
            ename = None if name is None else name.split('\0')[0]
            p = '%s.notes[%d].' % (label, i)
            for k, v in (('n_namesz', nb), ('n_descsz', len(d)), ('n_name', ename), ('n_descdata', d), ('n_offset', off), ('n_size', size)):
                if g.get(k) != v:
                    fails.append((p + k, v, g.get(k)))
            r = nm.check('n_type_core' if core_file else 'n_type', '*', t, g.get('n_type'))
            if r:
                fails.append((p + 'n_type', r[0], r[1]))
            # decoded descriptor: expectation derived from (file type, owner, type, bytes) alone
            nd = g.get('n_desc')
            want = expected_desc(f, machine, core_file, ename, t, d)
            if want is not SKIP:
                kind, val = want
                if kind == 'raw':
                    if nd != d:
                        fails.append((p + 'n_desc', 'raw descriptor bytes', nd))
                elif kind == 'abi':
                    ok = isinstance(nd, dict) and (nd.get('abi_major'), nd.get('abi_minor'), nd.get('abi_tiny')) == val[1:] and not nm.check('abi_os', '*', val[0], nd.get('abi_os'))
                    if not ok:
                        fails.append((p + 'n_desc', val, nd))
                elif kind in ('hex', 'str'):
                    if nd != val:
                        fails.append((p + 'n_desc', val, nd))
                elif kind == 'props':
                    ok = isinstance(nd, list) and len(nd) == len(val)
                    if ok:
                        for (pt, n, pv), gp in zip(val, nd):
                            if not isinstance(gp, dict) or gp.get('pr_datasz') != n or gp.get('pr_data') != pv or nm.check('prop_type', '*', pt, gp.get('pr_type')):
                                ok = False
                    if not ok:
                        fails.append((p + 'n_desc', val, nd))
                elif kind == 'prpsinfo':
                    ok = isinstance(nd, dict) and all(nd.get(k) == v for k, v in val.items())
                    if not ok:
                        fails.append((p + 'n_desc', val, nd))
                elif kind == 'ntfile':
                    page, maps = val
                    ok = (isinstance(nd, dict) and nd.get('num_map_entries') == len(maps) and nd.get('page_size') == page
                          and [(e.get('vm_start'), e.get('vm_end'), e.get('page_offset')) for e in nd.get('Elf_Nt_File_Entry', [])] == [m[:3] for m in maps]
                          and list(nd.get('filename', [])) == [m[3] for m in maps])
                    if not ok:
                        fails.append((p + 'n_desc', (page, maps), nd))
            off += size
        if off != nsec.offset + len(blob):
            fails.append((label + ' extent consumed', len(blob), off - nsec.offset))
    if len(views) == 2 and views[0] != views[1]:
        fails.append(('section view == segment view', 'equal', 'different'))
    return Case(fails, data, repr(views[:1]), nontrivial=len(notes) > 0,
                sample={'class': cls, 'le': le, 'core': core_file, 'notes': [(n, hex(t), len(d)) for n, t, d in notes], 'extent_bytes': len(blob)},
                checks=2 * len(notes) + 1)


# ---- stabs ----------------------------------------------------------------------------------

def _stab_gen():
    for cls in (64, 32):
        for le in (True, False):
            for count in (3, 0, 1, 40):
                for lead in (0, 5):
                    yield {'class': cls, 'le': le, 'count': count, 'lead': lead}


def _stab_check(desc):
    img = eg.Img(desc['class'], desc['le'], seed=SEED)
    f = img.f
    recs = []
    for i in range(desc['count']):
        recs.append(((0, 1, 0xffffffff, 0x1234)[i % 4] if i else 0xffffffff, (0x64, 0x24, 0, 0xff)[i % 4], (0, 1, 0xff)[i % 3], (0, 0xffff, 0x8000, 7)[i % 4],
                     (0x401000 + i, 0, 0xffffffff)[i % 3]))
    body = b''.join(struct.pack(f.o + 'IBBHI', *r) for r in recs)
    img.null()
    if desc['lead']:
        img.add(eg.Sec('.lead', 1, data=b'L' * desc['lead'], file_align=1))
    st = img.add(eg.Sec('.stab', 1, data=body, entsize=12, align=4, file_align=1))
    img.add(eg.Sec('.stabstr', 3, data=b'\0main.c\0'))
    img.add_shstrtab()
    data = img.encode()
    from elftools.elf.elffile import ELFFile
    fails = []
    elf = guarded(ELFFile, io.BytesIO(data))
    if isinstance(elf, Raised):
        return [('ELFFile()', 'constructs', elf)], True, repr(elf), data
    sec = guarded(elf.get_section, st.index)
    if type(sec).__name__ != 'StabSection':
        return [('class', 'StabSection', sec)], True, repr(sec), data
    got = guarded(lambda: [plain(s) for s in sec.iter_stabs()])
    exp = [dict(n_strx=r[0], n_type=r[1], n_other=r[2], n_desc=r[3], n_value=r[4], n_offset=st.offset + 12 * i) for i, r in enumerate(recs)]
    if got != exp:
        fails.append(('iter_stabs()', exp[:3], got if isinstance(got, Raised) else got[:3]))
    # interleaved consumption: two iterators advanced alternately must not disturb each other
    def inter():
        a, b = sec.iter_stabs(), sec.iter_stabs()
        out = []
        for _ in range(len(recs)):
            out.append(plain(next(a)))
            plain(next(b))
        return out
    g2 = guarded(inter)
    if g2 != exp:
        fails.append(('iter_stabs() interleaved', 'same records', g2 if isinstance(g2, Raised) else 'different'))
    return fails, desc['count'] > 0, repr(got), data


def _core_gen():
    for machine in (62, 3, 40, 183, 8):
        for cls in (64, 32):
            for le in (True, False):
                for kind in ('prpsinfo', 'ntfile0', 'ntfile1', 'ntfile3'):
                    yield {'class': cls, 'data': le, 'e_type': 'ET_CORE', 'e_machine': machine, 'probe.name': 'CORE', 'probe.descriptor': kind}


def _core_check(desc):
    case = run_notes(core.NamedChooser(desc))
    return case.fails, True, case.outcome, case.input


# ---- overlapping note extents, every iteration order -----------------------------------------
# A PT_NOTE segment usually spans several note sections (.note.gnu.property, .note.gnu.build-id, .note.ABI-tag): views that START at the
# same offset but have different sizes, and views nested in one another.  Every view must yield exactly the notes inside its own extent,
# whatever other view of the same file object was walked (completely or partially) before.

_EXT_VIEWS = ['secA', 'secB', 'segAB', 'segA', 'segB']


def _ext_gen():
    import itertools
    for cls in (64, 32):
        for le in (True, False):
            for perm in itertools.permutations(range(5)):
                yield {'class': cls, 'le': le, 'order': list(perm), 'partial': False}
            for a in range(5):
                for b in range(5):
                    if a != b:
                        yield {'class': cls, 'le': le, 'order': [a, b], 'partial': True}     # one note of view a, then all of view b


def _ext_check(desc):
    from elftools.elf.elffile import ELFFile
    img = eg.Img(desc['class'], desc['le'], machine=62, etype=3, seed=SEED)
    f = img.f
    A = [('GNU', 5, enc_props(f, [(0xc0000002, struct.pack(f.o + 'I', 3))])), ('GNU', 3, bytes(range(20)))]
    B = [('GNU', 1, struct.pack(f.o + 'IIII', 0, 3, 2, 0)), ('abc', 0x7001, b'xyz')]
    img.null()
    sa = img.add(eg.Sec('.note.a', 7, data=b''.join(enc_note(f, *n) for n in A), flags=2, addr=0x400200, align=4, file_align=8))
    sb = img.add(eg.Sec('.note.b', 7, data=b''.join(enc_note(f, *n) for n in B), flags=2, addr=0x400200 + len(sa.data), align=4, file_align=4))
    img.add_shstrtab()
    img.seg(eg.Seg(4, flags=4, of=[sa, sb], align=4))
    img.seg(eg.Seg(4, flags=4, of=sa, align=4))
    img.seg(eg.Seg(4, flags=4, of=sb, align=4))
    data = img.encode()
    if sb.offset != sa.offset + len(sa.data):
        raise core.HarnessError('note sections are not adjacent')
    elf = ELFFile(io.BytesIO(data))
    want = {'secA': A, 'secB': B, 'segAB': A + B, 'segA': A, 'segB': B}
    getter = {'secA': lambda: elf.get_section(sa.index), 'secB': lambda: elf.get_section(sb.index), 'segAB': lambda: elf.get_segment(0),
              'segA': lambda: elf.get_segment(1), 'segB': lambda: elf.get_segment(2)}

    def obs(n):
        return (n['n_name'], n['n_type'] if isinstance(n['n_type'], int) else str(n['n_type']), bytes(n['n_descdata']), n['n_offset'])
    fails = []
    seen = []
    order = [_EXT_VIEWS[i] for i in desc['order']]
    for j, v in enumerate(order):
        it = guarded(lambda: getter[v]().iter_notes())
        if desc['partial'] and j == 0:
            got = guarded(lambda: [obs(next(it))])
            exp = want[v][:1]
        else:
            got = guarded(lambda: [obs(n) for n in it])
            exp = want[v]
        if isinstance(got, Raised):
            fails.append(('%s.iter_notes() after %s' % (v, seen), '%d notes' % len(exp), got))
        else:
            g = [(n[0], n[2]) for n in got]
            e = [(n[0], n[2]) for n in exp]
            if g != e:
                fails.append(('%s.iter_notes() after %s' % (v, seen or 'nothing'), e, g))
            offs = [n[3] for n in got]
            if offs != sorted(set(offs)) or (offs and offs[0] != (sb.offset if v in ('secB', 'segB') else sa.offset)):
                fails.append(('%s note offsets' % v, 'ascending from the start of the extent', offs))
        seen.append(v)
    return fails, True, repr(order), data


def spaces(tier, seed):
    global SEED
    SEED = seed
    k = 3 if tier == 'quick' else 5
    return [
        ChoiceSpace('note-extents', run_notes, k, rule='file type {ET_DYN, ET_CORE} x machine x count {2,0,1,5} x probe owner {GNU, none, CORE, 1/2/3/4/5-byte, embedded NULs, long} '
                    'x probe descriptor {raw 0/1/2/3/4/5/16/300 bytes, ABI tag (known/unknown OS), build id 0/1/20, gold version, property lists (0,1,3 properties, stack size 4/8, 12-byte data, unknown type), '
                    'prpsinfo, NT_FILE 0/1/3} x type override x final note {as is, header-only, name-only, unpadded length} x position; both views compared; non-trivial = at least one note'),
        ListSpace('core-notes', _core_gen, _core_check, nparts=16, rule='core files: complete product machine {x86-64, i386, ARM, AArch64, MIPS} x class x byte order x {NT_PRPSINFO, NT_FILE with 0/1/3 mappings}, '
                  'owner CORE (16-bit uid/gid on 32-bit ARM/i386): descriptor decoded field by field'),
        ListSpace('overlapping-extents', _ext_gen, _ext_check, nparts=16, rule='two adjacent note sections A, B and three PT_NOTE segments (A+B, A, B): five views, two pairs of which start at the same file '
                  'offset with different sizes; every permutation of walking the five views on ONE file object (120) and every ordered pair with the first view abandoned after one note (20), x class x byte '
                  'order; each view must yield exactly the notes of its own extent'),
        ListSpace('stabs', _stab_gen, _stab_check, nparts=8, rule='stab tables of 0/1/3/40 records with field boundary values, two file positions, sequential and interleaved iteration'),
    ]
