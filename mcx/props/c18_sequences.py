"""C18 space 4 — the clone's output for a (file, option) pair does not depend on what the same interpreter printed before.

`scripts/readelf.py` keeps state outside the `ReadElf` object: the module-global `_MACHINE_ARCH` of
`elftools/dwarf/descriptions.py` (the state the property is anchored in), the class-level struct caches, whatever a
refactoring hoists to module scope (a dumper cache, a register-name table).  A fresh process hides all of it, and
space 1-3 only ever run fresh processes.  Here every ordered pair (and, thorough, every triple over a smaller set)
of calls `main(option, file)` over a set of corpus files of different machines / classes / byte orders is executed
*in one interpreter*; the output of the LAST call must equal the output of the same call in a fresh interpreter
(which space 1 compares with GNU readelf).  No sampling: the complete product over the stated call set.
"""
import io
import os
import pickle
import signal
import sys

from mcx.core import ListSpace
from mcx.props import c18

FILES_QUICK = ['simple_aarch64_gcc.o.elf', 'lineprogram.elf', 'gcc_tailcall.o.elf', 'simple_mips_gcc.o.elf', 'reloc_arm_gcc.o.elf', 's390x-relocs.o.elf', 'simple_riscv_gcc.o.elf']
OPTS_QUICK = ['-e', '-r', '-s', '--debug-dump=info', '--debug-dump=frames-interp', '--debug-dump=frames']
FILES_THOROUGH = FILES_QUICK + ['empty-cie.o.elf', 'mips64-relocs-be.o.elf', 'powerpc64-relocs-le.o.elf', 'improved-dwarfv4.o.elf',
                                'arm-eabi-attr-names.o.elf', 'note_gnu_property.elf', 'dt_flags.elf']
OPTS_THOROUGH = OPTS_QUICK + ['-d', '-n', '--debug-dump=decodedline', '--debug-dump=loc', '--debug-dump=aranges', '--arch-specific', '-V']


def run_sequence(calls):
    """-> [(rc, stdout)] of readelf.py's main() for each (option, file) of `calls`, all in ONE forked child of a process that has only imported the script"""
    m = c18._script()
    r, w = os.pipe()
    pid = os.fork()
    if pid == 0:
        os.close(r)
        res = []
        try:
            signal.alarm(120)
            os.chdir(c18.REPO)
            for option, base in calls:
                out = io.StringIO()
                rc = 0
                sys.argv = ['readelf.py'] + option.split(' ') + [os.path.join(c18.REPO, 'test', 'testfiles_for_readelf', base)]
                sys.stderr = io.StringIO()
                try:
                    m.main(stream=out)
                except SystemExit as e:
                    rc = e.code if isinstance(e.code, int) else (0 if e.code is None else 1)
                except BaseException as e:      # noqa: BLE001
                    rc = 70
                    out.write('\n<<uncaught %s>>\n' % type(e).__name__)
                res.append((rc, out.getvalue()))
            os.write(w, pickle.dumps(res))
        finally:
            os._exit(0)
    os.close(w)
    buf = b''
    while True:
        c = os.read(r, 1 << 16)
        if not c:
            break
        buf += c
    os.close(r)
    os.waitpid(pid, 0)
    if not buf:
        return None
    return pickle.loads(buf)


_FRESH = {}


def fresh(call):
    k = tuple(call)
    if k not in _FRESH:
        r = run_sequence([call])
        _FRESH[k] = r[0] if r else (71, 'child died')
    return _FRESH[k]


def _first_diff(a, b):
    la, lb = a.splitlines(), b.splitlines()
    for i, (x, y) in enumerate(zip(la, lb)):
        if x != y:
            return 'line %d: fresh >>%s<< in sequence >>%s<<' % (i + 1, x[:120], y[:120])
    return 'line %d: fresh has %d lines, in sequence %d lines' % (min(len(la), len(lb)) + 1, len(la), len(lb))


def _check(desc):
    calls = [tuple(c) for c in desc]
    want = fresh(calls[-1])
    got = run_sequence(calls)
    fails = []
    if got is None:
        fails.append(('sequence %s' % ' ; '.join('%s %s' % c for c in calls), 'terminates', 'child died / timed out'))
        return fails, False, 'died'
    last = got[-1]
    if last != want:
        what = 'exit status %s vs %s' % (want[0], last[0]) if last[0] != want[0] else _first_diff(want[1], last[1])
        fails.append(('%s %s after %s' % (calls[-1][0], calls[-1][1], ' ; '.join('%s %s' % c for c in calls[:-1])),
                      'the output of a fresh interpreter', what))
    return fails, want[0] == 0 and len(want[1]) > 40, (want[0], len(want[1]), last == want), repr(desc).encode()


def _calls(files, opts):
    out = []
    for f in files:
        for o in opts:
            if o == '--arch-specific' and '-eabi-' not in f:
                continue
            out.append((o, f))
    return out


def spaces(tier, seed):
    if tier == 'thorough':
        calls = _calls(FILES_THOROUGH, OPTS_THOROUGH)
        tri = _calls(FILES_QUICK[:4], ['--debug-dump=frames-interp', '--debug-dump=info', '-e'])
    else:
        calls = _calls(FILES_QUICK, OPTS_QUICK)
        tri = _calls(FILES_QUICK[:3], ['--debug-dump=frames-interp', '--debug-dump=info'])

    def gen():
        for a in calls:
            for b in calls:
                yield [list(a), list(b)]
        for a in tri:
            for b in tri:
                for c in tri:
                    yield [list(a), list(b), list(c)]
    sp = ListSpace('same-interpreter-sequences', gen, _check, nparts=64,
                   rule='every ordered pair over %d calls (option, corpus file) - files of different machine, class and byte order - and every ordered triple over %d calls, '
                        'executed by main() in ONE interpreter; the output of the last call must equal its output in a fresh interpreter (which space corpus-x-options '
                        'compares with GNU readelf); non-trivial = the fresh call succeeds with a non-empty dump' % (len(calls), len(tri)))
    sp.report_all = True
    return [sp]
