"""C10 — answers do not depend on query history or stream position.

E2 (mcx/history.py): explicit-state BFS over API-call histories on the real ELFFile/DWARFInfo
objects.  Systems: M0 (tiny, explored towards saturation), M1 / M2 (everything-small, LSB/64 and
MSB/32+DWARF64) to a depth bound, and vendored corpus files for the complete depth-2 sweep.
Pass A: all histories of length <= 2 with the cursors exactly as the previous event left them.
Pass B: BFS with state fingerprints; cursors are reset after each event and `scramble(p)` (seek every
shared stream to an adversarial position) is an explicit event; <= 2 suspended generators.
Oracle: the same event on a fresh object.
"""
import glob
import io
import os
import time

from mcx import core, history as H, payloads, elfwrap
from mcx.core import BulkSpace, BulkResult, Raised
from mcx.observe import plain

ID = 'C10'
LEVEL = 'model_checking'
ASSUMPTIONS = ['arguments are valid for the file (unit starts for get_CU_at, DIE starts for DIE lookups): the API documents that it does not validate them',
               'DWARF queries go to the most recently obtained DWARFInfo (the first DWARF event obtains one; `new_dwarf_info` obtains another); typed section objects and the dynamic segment are held across events',
               'state fingerprint = generic walk of the object graph (instance dicts/slots, containers, stream positions, suspended generator frames); construct descriptors, '
               '*Structs objects and code are opaque constants']
ROOT = os.path.dirname(os.path.dirname(os.path.dirname(os.path.abspath(__file__))))


class World:
    def __init__(self, data):
        from elftools.elf.elffile import ELFFile
        self.stream = io.BytesIO(data)
        self.elf = ELFFile(self.stream)
        self._dw = None
        self.slots = {}
        self.slot_info = {}
        self.last_expected = None
        self.held = {}              # section / segment objects a user keeps a reference to (lazy per-object maps live on them)

    def sec(self, name):
        if name not in self.held:
            self.held[name] = self.elf.get_section_by_name(name)
        return self.held[name]

    @property
    def dw(self):
        if self._dw is None:
            self._dw = self.elf.get_dwarf_info()
        return self._dw


def die_obs(d):
    if d is None:
        return None
    attrs = [(k, a.form, (list(a.value) if isinstance(a.value, list) else a.value), a.offset) for k, a in d.attributes.items()]
    return (d.offset, d.size, d.tag, d.abbrev_code, d.has_children, attrs)


def sec_obs(s):
    return None if s is None else (s.name, type(s).__name__, plain(s.header))


def cfi_obs(entries):
    out = []
    for e in entries:
        n = type(e).__name__
        if n == 'ZERO':
            out.append((n, e.offset))
            continue
        dec = e.get_decoded()
        rows = [sorted((str(k), repr(v)) for k, v in r.items()) for r in dec.table]
        out.append((n, e.offset, plain(e.header), [(i.opcode, i.args) for i in e.instructions], rows, list(dec.reg_order), e.cie.offset if n == 'FDE' else None))
    return out


ITER_KINDS = {
    'sections': lambda w, a: (sec_obs(s) for s in w.elf.iter_sections()),
    'segments': lambda w, a: ((type(s).__name__, plain(s.header)) for s in w.elf.iter_segments()),
    'symbols': lambda w, a: ((s.name, plain(s.entry)) for s in w.sec(a).iter_symbols()),
    'tags': lambda w, a: ((plain(t.entry), getattr(t, 'needed', None)) for t in w.sec('.dynamic').iter_tags()),
    'notes': lambda w, a: (plain(n) for n in w.sec(a).iter_notes()),
    'CUs': lambda w, a: (cu.cu_offset for cu in w.dw.iter_CUs()),
    'dynseg_symbols': lambda w, a: ((s.name, plain(s.entry)) for s in _dynseg(w).iter_symbols()),
    'dynseg_tags': lambda w, a: ((plain(t.entry), getattr(t, 'needed', None)) for t in _dynseg(w).iter_tags()),
    'noteseg': lambda w, a: (plain(n) for n in [s for s in w.elf.iter_segments() if type(s).__name__ == 'NoteSegment'][0].iter_notes()),
    'siblings': lambda w, a: (die_obs(d) for d in w.dw.get_DIE_from_refaddr(a).iter_siblings()),
    'TUs': lambda w, a: (tu.tu_offset for tu in w.dw.iter_TUs()),
    'verdefs': lambda w, a: ((plain(v.entry), [x.name for x in it]) for v, it in w.sec('.gnu.version_d').iter_versions()),
    'verneeds': lambda w, a: ((plain(v.entry), v.name, [x.name for x in it]) for v, it in w.sec('.gnu.version_r').iter_versions()),
    'relocs': lambda w, a: (plain(r.entry) for r in w.sec(a).iter_relocations()),
    'DIEs': lambda w, a: (die_obs(d) for d in w.dw.get_CU_at(a).iter_DIEs()),
    'children': lambda w, a: (die_obs(d) for d in w.dw.get_DIE_from_refaddr(a).iter_children()),
}


def _dynseg(w):
    if '#dynseg' not in w.held:
        w.held['#dynseg'] = [s for s in w.elf.iter_segments() if type(s).__name__ == 'DynamicSegment'][0]
    return w.held['#dynseg']


def apply(w, ev):
    k = ev[0]
    elf = w.elf
    if k == 'section':
        return sec_obs(elf.get_section(ev[1]))
    if k == 'section_typed':
        return sec_obs(w.elf.get_section(ev[1], (ev[2],)))
    if k == 'section_by_name':
        return sec_obs(elf.get_section_by_name(ev[1]))
    if k == 'section_index':
        return elf.get_section_index(ev[1])
    if k == 'has_section':
        return elf.has_section(ev[1])
    if k == 'num_sections':
        return (elf.num_sections(), elf.num_segments())
    if k == 'segment':
        s = elf.get_segment(ev[1])
        return (type(s).__name__, plain(s.header))
    if k == 'symbol':
        s = w.sec(ev[1]).get_symbol(ev[2])
        return (s.name, plain(s.entry))
    if k == 'symbol_by_name':
        r = w.sec(ev[1]).get_symbol_by_name(ev[2])
        return None if r is None else [(s.name, plain(s.entry)) for s in r]
    if k == 'num_symbols':
        return w.sec(ev[1]).num_symbols()
    if k == 'tags':
        d = w.sec('.dynamic')
        return ([(plain(t.entry), getattr(t, 'needed', None), getattr(t, 'soname', None)) for t in d.iter_tags()], d.num_tags())
    if k == 'tag':
        return plain(w.sec('.dynamic').get_tag(ev[1]).entry)
    if k == 'dynseg_symbols':
        seg = [s for s in elf.iter_segments() if type(s).__name__ == 'DynamicSegment'][0]
        return (seg.num_symbols(), [(s.name, plain(s.entry)) for s in seg.iter_symbols()])
    if k == 'notes':
        return [plain(n) for n in w.sec(ev[1]).iter_notes()]
    if k == 'hash_lookup':
        s = w.sec(ev[1]).get_symbol(ev[2])
        return None if s is None else (s.name, plain(s.entry))
    if k == 'verdef_get':
        r = w.sec('.gnu.version_d').get_version(ev[1])
        return None if r is None else (plain(r[0].entry), [(a.name, plain(a.entry)) for a in r[1]])
    if k == 'verneed_get':
        r = w.sec('.gnu.version_r').get_version(ev[1])
        return None if r is None else (plain(r[0].entry), r[0].name, plain(r[1].entry), r[1].name)
    if k == 'versym':
        return plain(w.sec('.gnu.version').get_symbol(ev[1]).entry)
    if k == 'data':
        return bytes(w.sec(ev[1]).data())
    if k == 'new_dwarf_info':
        # the user asks the file for its debugging information again: every later DWARF query goes to the new object
        _ = w.dw                    # (there is a first one)
        w._dw = elf.get_dwarf_info()
        return 'new-dwarf-info'
    dw = w.dw
    if k == 'iter_CUs':
        return [cu.cu_offset for cu in dw.iter_CUs()]
    if k == 'CU_at':
        cu = dw.get_CU_at(ev[1])
        return (cu.cu_offset, cu.size, plain(cu.header))
    if k == 'CU_containing':
        return dw.get_CU_containing(ev[1]).cu_offset
    if k == 'top_DIE':
        return die_obs(dw.get_CU_at(ev[1]).get_top_DIE())
    if k == 'dump':
        return [die_obs(d) for d in dw.get_CU_at(ev[1]).iter_DIEs()]
    if k == 'DIE_at':
        return die_obs(dw.get_DIE_from_refaddr(ev[1]))
    if k == 'hold_DIE':
        # the client keeps this entry object: later navigation starts from the SAME object, whatever the unit's caches did in between
        w.held['die'] = dw.get_DIE_from_refaddr(ev[1])
        w.held['die_off'] = ev[1]
        return die_obs(w.held['die'])
    if k == 'held':
        d = w.held.get('die')
        if d is None:
            return 'nothing-held'
        if ev[1] == 'parent':
            return die_obs(d.get_parent())
        if ev[1] == 'children':
            return [die_obs(x) for x in d.iter_children()]
        return [die_obs(x) for x in d.iter_siblings()]
    if k == 'parent':
        return die_obs(dw.get_DIE_from_refaddr(ev[1]).get_parent())
    if k == 'children':
        return [die_obs(d) for d in dw.get_DIE_from_refaddr(ev[1]).iter_children()]
    if k == 'siblings':
        return [die_obs(d) for d in dw.get_DIE_from_refaddr(ev[1]).iter_siblings()]
    if k == 'follow':
        return die_obs(dw.get_DIE_from_refaddr(ev[1]).get_DIE_from_attribute(ev[2]))
    if k == 'by_sig8':
        return die_obs(dw.get_DIE_by_sig8(ev[1]))
    if k == 'TUs':
        return [(tu.tu_offset, [die_obs(d) for d in tu.iter_DIEs()]) for tu in dw.iter_TUs()]
    if k == 'lineprog':
        lp = dw.line_program_for_CU(dw.get_CU_at(ev[1]))
        if lp is None:
            return None
        return ([(e.command, e.is_extended, [repr(a) for a in e.args], None if e.state is None else sorted(vars(e.state).items())) for e in lp.get_entries()],
                repr(plain(lp.header)))
    if k == 'CFI':
        return cfi_obs(dw.CFI_entries())
    if k == 'EH_CFI':
        return cfi_obs(dw.EH_CFI_entries())
    if k == 'cfi_decode':
        # the user keeps the entry list of one CFI_entries() / EH_CFI_entries() call and decodes single entries of it, in any order
        key = '#cfi_' + ev[1]
        if key not in w.held:
            w.held[key] = dw.CFI_entries() if ev[1] == 'debug' else dw.EH_CFI_entries()
        e = w.held[key][ev[2]]
        if type(e).__name__ == 'ZERO':
            return ('ZERO', e.offset)
        dec = e.get_decoded()
        return (type(e).__name__, e.offset, list(dec.reg_order), [sorted((str(k_), repr(v_)) for k_, v_ in r.items()) for r in dec.table])
    if k == 'aranges':
        return dw.get_aranges().cu_offset_at_addr(ev[1])
    if k == 'pubnames':
        return [(n, tuple(e)) for n, e in dw.get_pubnames().items()]
    if k == 'lut_DIE':
        pn = dw.get_pubnames()
        return die_obs(dw.get_DIE_from_lut_entry(pn[ev[1]]))
    if k == 'foreign':
        # other activity in the same process: a DIFFERENT file is opened and dumped (library-global state must not leak)
        fw = World(_FOREIGN['data'])
        n = 0
        for s_ in fw.elf.iter_sections():
            n += 1
            if type(s_).__name__ == 'SymbolTableSection':
                s_.get_symbol_by_name('main')
        if fw.elf.has_dwarf_info(strict=True):
            for cu in fw.dw.iter_CUs():
                for d in cu.iter_DIEs():
                    n += 1
                fw.dw.line_program_for_CU(cu)
        return 'foreign-done'
    # ---- iterator events
    if k == 'open':
        kind, arg, slot = ev[1], ev[2], ev[3]
        w.slots[slot] = ITER_KINDS[kind](w, arg)
        w.slot_info[slot] = [kind, arg, 0]
        return 'opened'
    if k == 'drop':
        w.slots.pop(ev[1], None)
        w.slot_info.pop(ev[1], None)
        return 'dropped'
    if k == 'next':
        slot = ev[1]
        if slot not in w.slots:
            w.last_expected = repr('no-slot')
            return 'no-slot'
        info = w.slot_info[slot]
        w.last_expected = _fresh_iter_item(w, info[0], info[1], info[2])
        info[2] += 1
        try:
            return ('item', next(w.slots[slot]))
        except StopIteration:
            return ('stop',)
    raise core.HarnessError('unknown event %r' % (ev,))


_FRESH_ITER = {}
_DATA = {}
_FOREIGN = {}


def _fresh_iter_item(w, kind, arg, i):
    key = (core.digest(_DATA.get('current')), kind, repr(arg))
    if key not in _FRESH_ITER:
        fw = World(_DATA['current'])
        try:
            _FRESH_ITER[key] = [repr(('item', x)) for x in ITER_KINDS[kind](fw, arg)]
        except Exception as e:      # noqa: BLE001
            _FRESH_ITER[key] = [repr(('raises', type(e).__name__))]
    lst = _FRESH_ITER[key]
    return lst[i] if i < len(lst) else repr(('stop',))


class C10Model(H.Model):
    def __init__(self, name, data, events):
        self.data = data
        super().__init__(name, self._open, events, apply, self._roots)

    def _open(self):
        _DATA['current'] = self.data
        return World(self.data)

    def _roots(self, w):
        return [w.elf, w._dw, w.slots, w.slot_info, w.held]

    def precompute(self, events):
        """Fresh-object observations come from a pristine interpreter, one forked child per observation
        (mcx/fresh_server.py): library-global state can then never make the oracle agree with a polluted answer."""
        import pickle
        import subprocess
        import sys
        reqs = []
        done = self.__dict__.setdefault('_precomputed', set())
        for ev in events:
            if ev[0] in ('next', 'drop', 'scramble', 'foreign', 'new_dwarf_info', 'hold_DIE', 'held'):
                continue
            if ev[0] == 'open':
                r = ('iter', ev[1], ev[2])
            else:
                r = ('event', ev)
            if r not in reqs and repr(r) not in done:
                reqs.append(r)
                done.add(repr(r))
        if not reqs:
            return
        env = dict(os.environ)
        env['PYTHONPATH'] = ROOT
        p = subprocess.run([sys.executable, '-m', 'mcx.fresh_server'], input=pickle.dumps((os.environ.get('VERIF_REPO', '/repo'), self.data, _FOREIGN.get('data'), reqs)),
                           stdout=subprocess.PIPE, cwd=ROOT, env=env, timeout=1800)
        if p.returncode != 0:
            raise core.HarnessError('fresh server failed')
        res = pickle.loads(p.stdout)
        self.fresh_hangs = getattr(self, 'fresh_hangs', []) + [r for r, obs in zip(reqs, res) if obs == repr(('hang-or-crash',))]
        for r, obs in zip(reqs, res):
            if r[0] == 'event':
                self._fresh[repr(r[1])] = obs
            else:
                _FRESH_ITER[(core.digest(self.data), r[1], repr(r[2]))] = obs if isinstance(obs, list) else [obs]

    def expected(self, w, ev):
        if ev[0] == 'foreign':
            return repr('foreign-done')
        if ev[0] == 'new_dwarf_info':
            return repr('new-dwarf-info')
        if ev[0] == 'next':
            return w.last_expected
        if ev[0] in ('open', 'drop'):
            return repr('opened' if ev[0] == 'open' else 'dropped')
        if ev[0] == 'hold_DIE':
            return self.fresh_obs(('DIE_at', ev[1]))
        if ev[0] == 'held':
            if w.held.get('die') is None:
                return repr('nothing-held')
            return self.fresh_obs((ev[1], w.held['die_off']))       # what a fresh object says about the entry at that offset
        return self.fresh_obs(ev)


def derive_events(data, max_dies=40, iterators=True, scramble=True, light=False, all_iters=None):
    """Event alphabet derived from the file itself (fresh object, independent of any history)."""
    w = World(data)
    elf = w.elf
    ev = [('num_sections',)]
    names = []
    for i, s in enumerate(elf.iter_sections()):
        if i < 10:
            ev.append(('section', i))
        names.append(s.name)
    dups = sorted({n for n in names if names.count(n) > 1})[:2]
    for n in sorted(set(names))[:5 if not light else 3] + [n for n in names if n == '.unwind_like'] + dups:
        if ('section_by_name', n) not in ev:
            ev += [('section_by_name', n), ('section_index', n)]
    if dups:
        ev += [('has_section', dups[0]), ('section_by_name', names[-1])]       # a name that sorts after the duplicates / the last section
    # access by index with a type filter: the wrong type must be refused whether or not the section was touched before
    for i in ((1, 2) if not light else (1,)):
        if i < len(names):
            ev += [('section_typed', i, 'SHT_STRTAB'), ('section_typed', i, 'SHT_NOBITS')]
    ev += [('section_by_name', '.absent'), ('has_section', '.absent'), ('has_section', names[-1] if names else '.x')]
    for i in range(min(elf.num_segments(), 4)):
        ev.append(('segment', i))
    for sn in ('.symtab', '.dynsym'):
        sec = elf.get_section_by_name(sn)
        if sec is not None and type(sec).__name__ == 'SymbolTableSection':
            n = sec.num_symbols()
            ev.append(('num_symbols', sn))
            for k in sorted({0, 1, n - 1} & set(range(n))):
                ev.append(('symbol', sn, k))
            seen = []
            for s in list(sec.iter_symbols())[:6]:
                if s.name not in seen:
                    seen.append(s.name)
            for nm in seen[-2:] + ['absent_symbol']:
                ev.append(('symbol_by_name', sn, nm))
    if elf.get_section_by_name('.dynamic') is not None and type(elf.get_section_by_name('.dynamic')).__name__ == 'DynamicSection':
        ev += [('tags',), ('tag', 0)]
        if any(type(s).__name__ == 'DynamicSegment' for s in elf.iter_segments()):
            ev.append(('dynseg_symbols',))
    for s in elf.iter_sections():
        if type(s).__name__ == 'NoteSection':
            ev.append(('notes', s.name))
            break
    for hn in ('.gnu.hash', '.hash'):
        hs = elf.get_section_by_name(hn)
        if hs is not None and type(hs).__name__ in ('GNUHashSection', 'ELFHashSection'):
            ev += [('hash_lookup', hn, 'b!'), ('hash_lookup', hn, 'printf'), ('hash_lookup', hn, 'absent')]
    vers = {type(s_).__name__ for s_ in elf.iter_sections()}
    if 'GNUVerDefSection' in vers and elf.get_section_by_name('.gnu.version_d') is not None:
        ev += [('verdef_get', i) for i in (1, 2, 3)]
    if 'GNUVerNeedSection' in vers and elf.get_section_by_name('.gnu.version_r') is not None:
        ev += [('verneed_get', i) for i in (3, 4, 5)]
    if 'GNUVerSymSection' in vers and elf.get_section_by_name('.gnu.version') is not None:
        ev += [('versym', i) for i in range(min(3, elf.get_section_by_name('.gnu.version').num_symbols()))]
    has_dw = elf.has_dwarf_info(strict=True)
    iters = [('sections', None)]
    if elf.get_section_by_name('.symtab') is not None:
        iters.append(('symbols', '.symtab'))
    if has_dw:
        dw = w.dw
        cus = list(dw.iter_CUs())
        ev.append(('iter_CUs',))
        ev.append(('new_dwarf_info',))
        ndies = 0
        for cu in cus[:3]:
            o = cu.cu_offset
            ev += [('CU_at', o), ('CU_containing', o), ('CU_containing', o + 1), ('CU_containing', o + cu.size - 1), ('top_DIE', o), ('dump', o), ('lineprog', o)]
            iters.append(('DIEs', o))
            nnull = 0
            for d in cu.iter_DIEs():
                if d.is_null() and nnull < 2 and not light:
                    # the null entry that ends a child list is an entry too: lookup by its offset and the way up from it
                    nnull += 1
                    ev += [('DIE_at', d.offset), ('parent', d.offset)]
                if d.is_null() or ndies >= max_dies:
                    continue
                ndies += 1
                ev.append(('DIE_at', d.offset))
                if not light or ndies % 3 == 0:
                    ev += [('parent', d.offset), ('children', d.offset)]
                    if d.get_parent() is not None:
                        ev.append(('siblings', d.offset))
                if d.has_children and len(iters) < 8:
                    iters.append(('children', d.offset))
                for k, a in d.attributes.items():
                    if a.form in ('DW_FORM_ref4', 'DW_FORM_ref_addr', 'DW_FORM_ref_sig8', 'DW_FORM_ref1', 'DW_FORM_ref2', 'DW_FORM_ref8', 'DW_FORM_ref_udata') and isinstance(k, str):
                        if a.form == 'DW_FORM_ref_sig8' and dw.debug_types_sec is None:
                            continue
                        ev.append(('follow', d.offset, k))
        if dw.debug_types_sec is not None:
            ev.append(('TUs',))
            for tu in dw.iter_TUs():
                ev.append(('by_sig8', tu['signature']))
                break
        if dw.has_CFI():
            ev.append(('CFI',))
            ev += [('cfi_decode', 'debug', i) for i in range(min(4, len(dw.CFI_entries())))]
        if dw.has_EH_CFI():
            ev.append(('EH_CFI',))
            ev += [('cfi_decode', 'eh', i) for i in range(min(4, len(dw.EH_CFI_entries())))]
        if dw.debug_aranges_sec is not None:
            ev += [('aranges', 0x401010), ('aranges', 0x10)]
        if dw.debug_pubnames_sec is not None:
            ev.append(('pubnames',))
            pn = list(dw.get_pubnames())
            if pn:
                ev.append(('lut_DIE', pn[0]))
        iters.append(('CUs', None))
    elif elf.get_section_by_name('.eh_frame') is not None:
        ev.append(('EH_CFI',))
    # iterators only the interleaving family (pass C) uses: the BFS alphabet stays small
    more = [('segments', None)]
    for sn in ('.dynsym',):
        sec = elf.get_section_by_name(sn)
        if sec is not None and type(sec).__name__ == 'SymbolTableSection':
            more.append(('symbols', sn))
    if any(type(s).__name__ == 'DynamicSegment' for s in elf.iter_segments()):
        more += [('dynseg_symbols', None), ('dynseg_tags', None)]
    if elf.get_section_by_name('.dynamic') is not None and type(elf.get_section_by_name('.dynamic')).__name__ == 'DynamicSection':
        more.append(('tags', None))
    for s in elf.iter_sections():
        if type(s).__name__ == 'NoteSection':
            more.append(('notes', s.name))
            break
    if any(type(s).__name__ == 'NoteSegment' for s in elf.iter_segments()):
        more.append(('noteseg', None))
    for s in elf.iter_sections():
        if type(s).__name__ == 'RelocationSection':
            more.append(('relocs', s.name))
            break
    if 'GNUVerDefSection' in vers and elf.get_section_by_name('.gnu.version_d') is not None:
        more.append(('verdefs', None))
    if 'GNUVerNeedSection' in vers and elf.get_section_by_name('.gnu.version_r') is not None:
        more.append(('verneeds', None))
    if has_dw:
        if w.dw.debug_types_sec is not None:
            more.append(('TUs', None))
        for e in ev:
            if e[0] == 'siblings':
                more.append(('siblings', e[1]))
                break
    if has_dw:
        nav = [e[1] for e in ev if e[0] == 'siblings' and ('parent', e[1]) in ev and ('children', e[1]) in ev and ('DIE_at', e[1]) in ev]
        for o in nav[:2] + nav[-1:]:
            if ('hold_DIE', o) not in ev:
                ev.append(('hold_DIE', o))
        if nav:
            ev += [('held', 'parent'), ('held', 'children'), ('held', 'siblings')]
    if all_iters is not None:
        all_iters.extend(iters + [m for m in more if m not in iters])
    if iterators:
        for slot in (0, 1):
            for kind, arg in iters[: (8 if not light else 3)]:
                ev.append(('open', kind, arg, slot))
            ev += [('next', slot), ('drop', slot)]
    if scramble:
        ev += [('scramble', p) for p in ('end', 'one', 'middle')]
    ev.append(('foreign',))
    # remove events that do not even work on a fresh object with an unexpected harness-level error
    return ev


def _machine_specific():
    """content whose decoding depends on the file's own machine: a section type in the processor range (SHT_X86_64_UNWIND here, SHT_ARM_EXIDX for the foreign file)"""
    from mcx import elfgen as eg
    # ... and two sections that share one name (as in lib_with_two_dynstr_sections): by-name lookups must give the same one whatever was looked up before
    return [eg.Sec('.unwind_like', 0x70000001, data=b'\0' * 16, flags=2, addr=0x404000, align=4),
            eg.Sec('.twice', 1, data=b'first...', flags=2, addr=0x404100, align=4), eg.Sec('.twice', 1, data=b'second..', flags=2, addr=0x404200, align=4)]


def model_file(kind):
    if kind == 'M3':
        return elfwrap.wrap(big_flat_model(), 64, True, with_symbols=False, addresses={})[0]
    if kind in ('M0', 'M0n'):
        secs, meta = payloads.make('m0', True, 32, 8)
        data, _ = elfwrap.wrap(secs, 64, True, with_symbols=True, addresses=meta['addresses'])
    elif kind == 'M1':
        secs, meta = payloads.make('m1', True, 32, 8)
        data, _ = elfwrap.wrap(secs, 64, True, with_symbols=True, with_dynamic=True, with_notes=True, addresses=meta['addresses'], extra=_machine_specific())
    else:
        secs, meta = payloads.make('m1', False, 64, 4)
        data, _ = elfwrap.wrap(secs, 32, False, with_symbols=True, with_dynamic=True, with_notes=True, addresses=meta['addresses'], extra=_machine_specific())
    return data


def corpus_files(limit):
    out = []
    for p in sorted(glob.glob(os.path.join(ROOT, 'seeds', '*'))):
        d = open(p, 'rb').read()
        if len(d) <= limit and d[:4] == b'\x7fELF':
            out.append((os.path.basename(p), d))
    return out


def interleaving_family(events, iters, pairs=True):
    """Pass C: every suspended iterator x every other event, at two split points, and every ordered pair of iterators stepped alternately.
    -> (alphabet, histories)"""
    others = [e for e in events if e[0] not in ('open', 'next', 'drop')]
    hs = []

    def summaries(kind, arg):
        """complete enumerations over the same data as iterator (kind, arg): what a damaged cache would show AFTER the interleaving"""
        want = {'DIEs': [('dump', arg), ('children',), ('siblings',)], 'children': [('children', arg), ('dump',)], 'siblings': [('siblings', arg), ('dump',)],
                'TUs': [('TUs',), ('by_sig8',)], 'CUs': [('iter_CUs',), ('dump',)], 'symbols': [('num_symbols', arg), ('symbol_by_name', arg)], 'sections': [('num_sections',), ('section_by_name',)],
                'tags': [('tags',)], 'dynseg_tags': [('tags',)], 'dynseg_symbols': [('dynseg_symbols',)], 'notes': [('notes', arg)], 'verdefs': [('verdef_get',)], 'verneeds': [('verneed_get',)]}.get(kind, [])
        out = []
        for pat in want:
            m = [e for e in others if e[:len(pat)] == pat]
            out += m[:2]
        return out
    for kind, arg in iters:
        o = ('open', kind, arg, 0)
        sm = summaries(kind, arg)
        for x in others:
            for p in (1, 2):
                hs.append((o,) + (('next', 0),) * p + (x, ('next', 0), ('next', 0)))
            # ... and what a complete enumeration says after the interrupted walk was resumed (a walk that re-parses and appends shows up only there)
            if x in sm:
                for y in sm:
                    hs.append((o, ('next', 0), x, ('next', 0), ('next', 0), y))
        hs.append((o,) + (('next', 0),) * 8)
        # two live walks over the same data: the first runs to its end, the one started later is abandoned part-way (and the other way round), then a complete enumeration
        o1 = ('open', kind, arg, 1)
        for y in sm:
            hs.append((o, o1, ('next', 1)) + (('next', 0),) * 8 + (y,))
            hs.append((o, o1, ('next', 0)) + (('next', 1),) * 8 + (y,))
            hs.append((o, o1, ('next', 0), ('next', 1)) + (('next', 0),) * 8 + (y,))       # both under way; the one that STARTED first finishes
            hs.append((o, o1, ('next', 1), ('next', 0)) + (('next', 1),) * 8 + (y,))
    if pairs:
        for k1, a1 in iters:
            for k2, a2 in iters:
                hs.append((('open', k1, a1, 0), ('open', k2, a2, 1)) + (('next', 0), ('next', 1)) * 3)
    alphabet = others + [('open', k, a, sl) for k, a in iters for sl in (0, 1)] + [('next', 0), ('next', 1)]
    return alphabet, hs


def held_family(events):
    """Pass H: an entry object is kept by the client, the unit is then walked / queried some other way, and navigation resumes from the kept object."""
    holds = [e for e in events if e[0] == 'hold_DIE']
    helds = [e for e in events if e[0] == 'held']
    walkers = [e for e in events if e[0] in ('dump', 'children', 'siblings', 'iter_CUs', 'DIE_at', 'parent', 'follow', 'new_dwarf_info', 'foreign', 'scramble', 'TUs', 'lut_DIE')]
    hs = []
    for h in holds:
        for x in helds:
            hs.append((h, x, x))
            for wv in walkers:
                hs.append((h, wv, x))
            for w1 in walkers[:12]:
                for w2 in [e for e in walkers if e[0] == 'dump'][:2]:
                    hs.append((h, w1, w2, x))
    return [e for e in events if e[0] not in ('open', 'next', 'drop')], hs


def big_flat_model():
    """M3: one unit with more entries than any plausible per-unit cache bound (2 500 children of the root, one byte each, a few named ones in between)."""
    from mcx import dwarfgen as dg
    from mcx.dwarfgen import DP, Abbrev, Die, Unit, null, TAG, AT, F
    dp = DP(True, 32, 8, 4)
    a_cu = Abbrev(1, TAG['compile_unit'], True, [(AT['name'], F['string'], None)])
    a_leaf = Abbrev(2, TAG['base_type'], False, [])
    a_named = Abbrev(3, TAG['variable'], False, [(AT['name'], F['string'], None)])
    a_par = Abbrev(4, TAG['subprogram'], True, [(AT['name'], F['string'], None)])
    kids = [Die(a_named, [b'first'], label='first'), Die(a_par, [b'fn'], [Die(a_named, [b'inner'], label='inner'), null()], label='fn')]
    kids += [Die(a_leaf, []) for _ in range(2500)]
    kids += [Die(a_named, [b'last'], label='last'), null()]
    asm = dg.Assembly([Unit(dp, Die(a_cu, [b'big.c'], kids, label='root'))], le=True)
    secs = asm.assemble()
    return {k: secs[k] for k in ('.debug_info', '.debug_abbrev')}


# ---- the check is organised as bulk "units": each unit is one (system, pass) exploration ----------------

QUICK_CORPUS = ['gcc_tailcall.o.elf', 'clang33-simple.o', 'compressed_32.o', 'lineprogram.elf', 'arm-eabi-attr-names.o.elf', 'trailing_null_dies.elf']


def _units(tier):
    quick = tier == 'quick'
    if quick:
        u = [('M0', 'A', 2), ('M1', 'A', 2), ('M1', 'C', 8), ('M2', 'C', 8), ('M0', 'H', 4), ('M1', 'H', 4), ('M3', 'H', 4), ('M0', 'B', 2), ('M1', 'B', 2), ('M0n', 'B', 3)]
        for name, d in corpus_files(4096):
            if name in QUICK_CORPUS:
                u.append(('corpus:' + name, 'A', 2))
        return u
    # bounded units first (passes A and C on the models and on every vendored corpus file: never time-capped), then the deep searches, which share the time budget
    u = [('M0', 'A', 2), ('M1', 'A', 2), ('M2', 'A', 2), ('M0', 'C', 8), ('M1', 'C', 8), ('M2', 'C', 8), ('M0', 'H', 4), ('M1', 'H', 4), ('M2', 'H', 4), ('M3', 'H', 4)]
    for name, d in corpus_files(4096):
        u.append(('corpus:' + name, 'A', 2))
    for name, d in corpus_files(4096):
        u.append(('corpus:' + name, 'C', 8))
    u += [('M0n', 'B', 40), ('M0', 'B', 5), ('M1', 'B', 4), ('M2', 'B', 3)]
    return u


_RESULTS = {}


def explore_unit(system, pass_, depth, tier, deadline):
    if system.startswith('corpus:'):
        data = dict(corpus_files(4096))[system[7:]]
        light = True
    else:
        data = model_file('M0' if system == 'M0n' else system)
        light = False
    try:
        all_iters = []
        events = derive_events(data, max_dies=(40 if not light else 12) if system != 'M3' else 6, iterators=(system not in ('M0n', 'M3')), scramble=(pass_ in 'BC'), light=light, all_iters=all_iters)
        if system == 'M0n':
            # the saturation model: DWARF queries only (ELF-level queries create no state), no suspended generators
            events = [e for e in events if e[0] in ('iter_CUs', 'CU_at', 'CU_containing', 'top_DIE', 'dump', 'DIE_at', 'parent', 'children', 'siblings', 'follow',
                                                    'lineprog', 'CFI', 'cfi_decode', 'pubnames', 'lut_DIE', 'scramble', 'aranges', 'foreign', 'new_dwarf_info')]
    except Exception as e:      # noqa: BLE001 - a corpus file the library cannot open at all is not a C10 subject
        return dict(system=system, skipped='cannot derive events: %s' % type(e).__name__, states=0, transitions=0, violations=[], depth_completed=0,
                    saturated=False, per_level=[], capped=None, events=0)
    if system == 'M0' and pass_ == 'B':
        pass
    # the foreign file: same shapes, different contents at the same offsets
    fsecs, fmeta = payloads.make('m1' if system in ('M0', 'M0n') else 'm0', data[5] == 1, 32, 8 if data[4] == 2 else 4)
    _FOREIGN['data'] = elfwrap.wrap(fsecs, 64 if data[4] == 2 else 32, data[5] == 1, with_symbols=True, seed=77, addresses=fmeta['addresses'], machine=40, etype=4)[0]      # another machine and file type: per-file decoding tables must not be shared
    model = C10Model(system, data, events)
    # a query that does not even terminate on a freshly opened object (in the pristine process) is a violation by itself: no exploration is needed to show it
    model.precompute(events)
    if getattr(model, 'fresh_hangs', None):
        r0 = model.fresh_hangs[0]
        ev0 = r0[1] if r0[0] == 'event' else ('open', r0[1], r0[2], 0)
        return dict(states=1, transitions=len(model.fresh_hangs), depth_completed=0, saturated=False, per_level=[], capped=None, system=system, events=len(events), model=model,
                    violations=[([ev0], ('terminates (a single query on a freshly opened object, pristine process)', 'still running after 15 s, or the interpreter died'))])
    if pass_ == 'H':
        alphabet, hs = held_family(events)
        r = H.run_histories(model, alphabet, hs, normalise=False, deadline=deadline)
        r['system'] = system
        r['events'] = len(alphabet)
        r['model'] = model
        return r
    if pass_ == 'C':
        alphabet, hs = interleaving_family(events, all_iters, pairs=not light)
        r = H.run_histories(model, alphabet, hs, normalise=False, deadline=deadline)
        r['system'] = system
        r['events'] = len(alphabet)
        r['iterators'] = len(all_iters)
        r['model'] = model
        return r
    r = H.bfs(model, events, depth, normalise=(pass_ == 'B'), dedupe=(pass_ == 'B'), deadline=deadline)
    r['system'] = system
    r['events'] = len(events)
    r['model'] = model
    return r


def run_c10(tier):
    """Returns aggregate dict + list of violations (history, expected, observed)."""
    t0 = time.time()
    # quick units are bounded by depth, never by time (a loaded machine must not silently skip them); the thorough tier's deep searches are time-capped and say so
    budget = 2400           # thorough tier, pass B only: each deep search gets half of what is left
    agg = dict(states=0, transitions=0, units=[], violations=[])
    t_deep = None
    for system, pass_, depth in _units(tier):
        if tier == 'quick' or pass_ != 'B':
            deadline = None
        else:
            t_deep = t_deep or time.time()
            left = budget - (time.time() - t_deep)
            if left < 5:
                agg['units'].append({'system': system, 'pass': pass_, 'skipped': 'time budget exhausted'})
                continue
            deadline = time.time() + left * 0.5
        r = explore_unit(system, pass_, depth, tier, deadline)
        agg['states'] += r['states']
        agg['transitions'] += r['transitions']
        agg['units'].append({'system': system, 'pass': pass_, 'depth_bound': depth, 'depth_completed': r['depth_completed'], 'saturated': r['saturated'], 'events': r['events'],
                             'states': r['states'], 'transitions': r['transitions'], 'per_level': r['per_level'], 'capped': r['capped'], 'skipped': r.get('skipped')})
        for hist, (exp, obs) in r['violations'][:6]:
            mh = hist if str(exp).startswith('terminates') else H.minimise_history(r['model'], hist, pass_ == 'B')      # (a non-terminating step is not replayed in this process)
            agg['violations'].append(dict(system=system, pass_=pass_, history=[list(e) for e in mh], expected=exp, observed=obs))
    return agg


def custom_check(tier, seed):
    """Entry point used by mcx.run instead of spaces(): E2 has its own parallel driver."""
    agg = run_c10(tier)
    units = agg['units']
    a = dict(name='api-histories', kind='bulk', rule='E2 explicit-state BFS over API-call histories on the real objects; states = distinct fingerprints of the reachable object graph '
             '(pass B) or distinct histories (pass A, no de-duplication); transitions = events fired from explored states, each compared with the same event on a fresh object',
             evaluations=agg['transitions'], decisions=0, edges=0, states=set(), n_states=agg['states'], nontrivial=set(), n_nontrivial=agg['transitions'], outcomes=set(),
             n_outcomes=sum(u.get('events', 0) or 0 for u in units), fails=[], nfail=len(agg['violations']), by_dev={}, outside=0,
             partial=False, samples=[], points={}, checks=agg['transitions'], k=None, wall_s=0.0, errors=[])
    a['samples'] = [{'system': u['system'], 'pass': u['pass'], 'events': u.get('events'), 'per_level': u.get('per_level')} for u in units[:4] if not u.get('skipped')]
    caps = [('%s/%s: %s' % (u['system'], u['pass'], u.get('capped') or u.get('skipped'))) for u in units if u.get('capped') or u.get('skipped')]
    extra = {'units': units, 'caps_hit': caps, 'exhaustive': not caps,
             'explanation_of_passes': 'A = all histories of length <= 2 with natural cursor positions; B = BFS with fingerprint de-duplication, cursors reset after each event, scramble(p) explicit; '
             'C = interleaving family: every iterator of the file suspended after 1 or 2 items x every other event (incl. scramble, foreign) then resumed twice, every iterator run to 8 items, '
             'and every ordered pair of iterators stepped alternately; every step compared with the pristine-process iteration'}
    failures = []
    for v in agg['violations']:
        labels = ['%s/%s' % (v['system'], v['pass_'])] + [repr(tuple(e)) for e in v['history']]
        failures.append(dict(labels=labels, path='observation of ' + repr(tuple(v['history'][-1])), expected=v['expected'], observed=v['observed'],
                             doc={'system': v['system'], 'pass': v['pass_'], 'history': v['history']}))
    return dict(aggs=[a], extra=extra, failures=failures)


def custom_replay(doc):
    system = doc['system']
    if system.startswith('corpus:'):
        data = dict(corpus_files(4096))[system[7:]]
    else:
        data = model_file('M0' if system == 'M0n' else system)
    hist = [tuple(e) for e in doc['history']]
    fsecs, fmeta = payloads.make('m1' if system in ('M0', 'M0n') else 'm0', data[5] == 1, 32, 8 if data[4] == 2 else 4)
    _FOREIGN['data'] = elfwrap.wrap(fsecs, 64 if data[4] == 2 else 32, data[5] == 1, with_symbols=True, seed=77, addresses=fmeta['addresses'], machine=40, etype=4)[0]      # another machine and file type: per-file decoding tables must not be shared
    model = C10Model(system, data, [])
    model.precompute([e for e in hist])
    import signal

    def _alarm(signum, frame):
        raise H._Hang()
    signal.signal(signal.SIGALRM, _alarm)
    signal.setitimer(signal.ITIMER_REAL, 30.0)
    try:
        w, res = H.replay(model, hist, doc['pass'] == 'B')
    except H._Hang:
        return [('observation of ' + repr(hist[-1]), 'terminates', 'still running after 30 s')]
    finally:
        signal.setitimer(signal.ITIMER_REAL, 0)
    obs, exp = res[-1]
    return [] if obs == exp else [('observation of ' + repr(hist[-1]), exp, obs)]
