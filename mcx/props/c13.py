"""C13 — address-range and name lookup tables resolve to the right compilation unit.

E1 over .debug_aranges (set count, address size per set incl. mixed, tuples per set incl. empty
sets, sorted/unsorted/adjacent/length-1 ranges, sets starting at offsets that are not a multiple of
their tuple size) with the COMPLETE boundary query set; .debug_pubnames/.debug_pubtypes (set count,
names per set, UTF-8 and long names); multi-unit .debug_info lookup by EVERY section offset in three
fixed orders.
"""
import struct

from mcx import core, dwarfgen as dg
from mcx.core import Case, ChoiceSpace, guarded, Raised
from mcx.dwarfgen import F, TAG, AT, Abbrev, Die, Unit, DP, null
from mcx.observe import plain

ID = 'C13'
LEVEL = 'model_checking'
ASSUMPTIONS = ['ranges of different sets do not overlap; 32-bit DWARF format tables; no segmented aranges; names are distinct (the mapping API cannot represent duplicates)']
SEED = 0


def build_aranges(ch, le, unit_offs=()):
    nsets = ch.pick('aranges.sets', [2, 1, 3, 0])
    amode = ch.pick('aranges.address_size', ['8', '4', 'mixed', 'mixed_4_first'])
    ntup = ch.pick('aranges.tuples', [2, 0, 1, 5])
    shape = ch.pick('aranges.ranges', ['sorted', 'unsorted', 'adjacent', 'length1', 'address_zero', 'length_zero'])
    first_tuples = ch.pick('aranges.first_set_tuples', ['same', 0, 1])     # makes the second set start off its tuple alignment
    second_tuples = ch.pick('aranges.second_set_tuples', ['same', 0])         # an empty set in the middle must not end the table
    o = '<' if le else '>'
    buf = b''
    sets = []
    allr = []
    base = 0x1000
    for si in range(nsets):
        asz = {'8': 8, '4': 4, 'mixed': (8, 4, 8)[si], 'mixed_4_first': (4, 8, 4)[si]}[amode]
        n = ntup if (si > 0 or first_tuples == 'same') else first_tuples
        if si == 1 and second_tuples == 0:
            n = 0
        info_off = unit_offs[si] if si < len(unit_offs) else 0x40 * si      # a real unit header where the file has one
        tuples = []
        for k in range(n):
            if shape == 'sorted':
                t = (base + 0x100 * k, 0x40)
            elif shape == 'unsorted':
                t = (base + 0x100 * (n - 1 - k), 0x40)
            elif shape == 'adjacent':
                t = (base + 0x40 * k, 0x40)
            elif shape == 'length1':
                t = (base + 0x10 * k, 1)
            elif shape == 'address_zero':
                # a range that starts at address 0 (discarded code resolved to 0, .text of an object at 0): only (0, 0) terminates a set
                t = (0, 0x40) if (k == 0 and si == 0) else (base + 0x100 * k, 0x40)
            else:
                # an empty contribution in the middle of the set: (address, 0) is an entry, not the terminator
                t = (base + 0x100 * k, 0 if k == 1 else 0x40)
            tuples.append(t)
        base += 0x1000
        hdr_rest = struct.pack(o + 'HIBB', 2, info_off, asz, 0)
        # padding so that the first tuple starts at a multiple of the tuple size FROM THE SET START (DWARF 6.1.2)
        pre = 4 + len(hdr_rest)
        pad = (-pre) % (2 * asz)
        A = 'Q' if asz == 8 else 'I'
        body = hdr_rest + b'\0' * pad + b''.join(struct.pack(o + A + A, a, l) for a, l in tuples) + struct.pack(o + A + A, 0, 0)
        sets.append(dict(offset=len(buf), unit_length=len(body), info_offset=info_off, address_size=asz, tuples=tuples))
        buf += struct.pack(o + 'I', len(body)) + body
        for a, l in tuples:
            allr.append((a, l, info_off, len(body), asz))
    return buf, sets, allr


def build_names(ch, le, which, unit_offs=(), unit_sizes=()):
    nsets = ch.pick(which + '.sets', [2, 1, 3])
    nn = ch.pick(which + '.names', [2, 0, 1, 5])
    o = '<' if le else '>'
    buf = b''
    exp = []
    hdrs = []
    pool = ['main', 'naïve_é€', 'N' * 70, 'x', 'ns::fn(int, char const*)', 'operator<<', 'a b', 'Z9']
    for si in range(nsets):
        cu_off = unit_offs[si] if si < len(unit_offs) else 0x30 * si
        cu_len = unit_sizes[si] if si < len(unit_sizes) else 0x100 + si
        body = struct.pack(o + 'HII', 2, cu_off, cu_len)
        for k in range(nn):
            name = '%s%s' % (pool[(k + si) % len(pool)], '' if si == 0 else '_%d' % si)
            die = 0x0b + 7 * k + si
            body += struct.pack(o + 'I', die) + name.encode('utf-8') + b'\0'
            exp.append((name, cu_off, cu_off + die))
        body += struct.pack(o + 'I', 0)
        hdrs.append(dict(unit_length=len(body), version=2, debug_info_offset=cu_off, debug_info_length=cu_len))
        buf += struct.pack(o + 'I', len(body)) + body
    return buf, exp, hdrs


def build_info(ch, le):
    n = ch.pick('info.units', [2, 1, 3])
    mix = ch.pick('info.parameters', ['same', 'mixed_format', 'mixed_all'])
    units = []
    for i in range(n):
        fmt = 32 if mix == 'same' or i % 2 == 0 else 64
        ver = 4 if mix != 'mixed_all' else (4, 5, 2)[i]
        addr = 8 if mix != 'mixed_all' else (8, 4, 8)[i]
        dp = DP(le, fmt, addr, ver)
        a0 = Abbrev(1 + 2 * i, TAG['compile_unit'], True, [(AT['name'], F['string'], None)])
        a1 = Abbrev(2 + 2 * i, TAG['variable'], False, [(AT['name'], F['string'], None), (AT['decl_line'], F['udata'], None)])
        kids = [Die(a1, [b'var%d_%d' % (i, k), k], label='u%dd%d' % (i, k)) for k in range(1 + i)] + [null()]
        units.append(Unit(dp, Die(a0, [b'unit%d' % i], kids, label='u%droot' % i), abbrev_key='shared'))
    asm = dg.Assembly(units, le=le)
    return asm.assemble(), units


def run(ch):
    le = ch.free('data', [True, False])
    default_addr = ch.free('default_address_size', [8, 4])
    secs, units = build_info(ch, le)
    uo, us = [u.offset for u in units], [u.size for u in units]
    ar, sets, allr = build_aranges(ch, le, uo)
    pn, pn_exp, pn_hdrs = build_names(ch, le, 'pubnames', uo, us)
    pt, pt_exp, pt_hdrs = build_names(ch, le, 'pubtypes', uo, us)
    order = ch.pick('lookup_order', ['ascending', 'descending', 'interleaved'])
    secs = dict(secs)
    secs['.debug_aranges'] = ar
    secs['.debug_pubnames'] = pn
    secs['.debug_pubtypes'] = pt
    data = b'|'.join(secs[k] for k in sorted(secs))
    fails = []
    dw = guarded(dg.make_dwarfinfo, secs, le, default_addr)
    if isinstance(dw, Raised):
        return Case([('DWARFInfo()', 'constructs', dw)], data, repr(dw))
    outs = []
    # ---- aranges
    a = guarded(dw.get_aranges)
    if isinstance(a, Raised) or a is None:
        fails.append(('get_aranges()', 'ARanges', a))
    else:
        exp_entries = sorted([dict(begin_addr=x[0], length=x[1], info_offset=x[2], unit_length=x[3], version=2, address_size=x[4], segment_size=0) for x in allr],
                             key=lambda e: e['begin_addr'])
        g = guarded(lambda: [e._asdict() for e in a.entries])
        if g != exp_entries:
            fails.append(('aranges.entries', exp_entries[:3], g if isinstance(g, Raised) else g[:3]))
        qs = {0, 1, (1 << 32) - 1, (1 << 64) - 1}
        for (b, l, io, ul, asz) in allr:
            qs.update({b - 1, b, b + 1, b + l - 1, b + l, b + l + 1})
        for q in sorted(x for x in qs if x >= 0):
            hit = [io for (b, l, io, ul, asz) in allr if b <= q < b + l]
            e = hit[0] if hit else None
            g = guarded(a.cu_offset_at_addr, q)
            if g != e:
                fails.append(('aranges.cu_offset_at_addr(%#x)' % q, e, g))
                if len(fails) > 4:
                    break
        outs.append(len(exp_entries))
    # ---- name tables
    for label, getter, exp, hdrs in (('pubnames', dw.get_pubnames, pn_exp, pn_hdrs), ('pubtypes', dw.get_pubtypes, pt_exp, pt_hdrs)):
        t = guarded(getter)
        if isinstance(t, Raised) or t is None:
            fails.append(('get_%s()' % label, 'NameLUT', t))
            continue
        items = guarded(lambda: [(k, v.cu_ofs, v.die_ofs) for k, v in t.items()])
        if items != exp:
            fails.append((label + '.items()', exp[:3], items if isinstance(items, Raised) else items[:3]))
        if guarded(len, t) != len(exp):
            fails.append(('len(%s)' % label, len(exp), guarded(len, t)))
        if guarded(lambda: list(t)) != [e[0] for e in exp]:
            fails.append(('iter(%s)' % label, [e[0] for e in exp][:4], guarded(lambda: list(t))))
        for name, cu, die in exp:
            g = guarded(lambda: (t[name].cu_ofs, t[name].die_ofs))
            if g != (cu, die):
                fails.append(('%s[%r]' % (label, name[:20]), (cu, die), g))
            g = guarded(lambda: (lambda v: (v.cu_ofs, v.die_ofs))(t.get(name)))
            if g != (cu, die):
                fails.append(('%s.get(%r)' % (label, name[:20]), (cu, die), g))
        if guarded(t.get, 'absent-name') is not None or guarded(lambda: 'absent-name' in t) is not False:
            fails.append((label + '.get(absent)', None, guarded(t.get, 'absent-name')))
        g = guarded(lambda: [plain(h) for h in t.get_cu_headers()])
        if g != hdrs:
            fails.append((label + '.get_cu_headers()', hdrs[:2], g if isinstance(g, Raised) else g[:2]))
        outs.append(items)
    # ---- unit lookup by every offset
    size = len(secs['.debug_info'])
    offs = list(range(size))
    if order == 'descending':
        offs.reverse()
    elif order == 'interleaved':
        offs = [x for pair in zip(offs[: size // 2], reversed(offs[size // 2:])) for x in pair] + ([offs[size // 2]] if size % 2 else [])

    def owner(o_):
        for u in units:
            if u.offset <= o_ < u.offset + u.size:
                return u.offset
    for o_ in offs:
        g = guarded(lambda: dw.get_CU_containing(o_).cu_offset)
        if g != owner(o_):
            fails.append(('get_CU_containing(%d) [%s order]' % (o_, order), owner(o_), g))
            if len(fails) > 6:
                break
    dw2 = dg.make_dwarfinfo(secs, le, default_addr)
    starts = [u.offset for u in units]
    for s_ in (starts if order == 'ascending' else list(reversed(starts))):
        g = guarded(lambda: (lambda cu: (cu.cu_offset, cu.size, cu['version']))(dw2.get_CU_at(s_)))
        u = [x for x in units if x.offset == s_][0]
        if g != (u.offset, u.size, u.dp.version):
            fails.append(('get_CU_at(%d)' % s_, (u.offset, u.size, u.dp.version), g))
    g = guarded(lambda: [cu.cu_offset for cu in dw2.iter_CUs()])
    if g != starts:
        fails.append(('iter_CUs() after out-of-order get_CU_at', starts, g))
    # ---- lookup after sparse warm-ups: units fetched by offset leave holes in the unit cache; every offset must still find its owner
    import itertools
    warm = [c for r in range(1, len(starts) + 1) for c in itertools.combinations(starts, r)] + [tuple(reversed(c)) for c in itertools.combinations(starts, 2)]
    for wu in warm:
        if len(fails) > 6:
            break
        dw3 = dg.make_dwarfinfo(secs, le, default_addr)
        for s_ in wu:
            guarded(dw3.get_CU_at, s_)
        for o_ in range(size):
            g = guarded(lambda: dw3.get_CU_containing(o_).cu_offset)
            if g != owner(o_):
                fails.append(('get_CU_containing(%d) after get_CU_at%r' % (o_, tuple(wu)), owner(o_), g))
                break
    # ---- get_DIE_from_lut_entry on a table that points at the real DIEs
    from elftools.dwarf.namelut import NameLUTEntry
    for u in units:
        for d in u.dies:
            if d.abbrev is not None and d is not u.root:
                g = guarded(lambda: dw.get_DIE_from_lut_entry(NameLUTEntry(cu_ofs=u.offset, die_ofs=d.offset)).offset)
                if g != d.offset:
                    fails.append(('get_DIE_from_lut_entry(cu=%d, die=%d)' % (u.offset, d.offset), d.offset, g))
    return Case(fails, data, repr(outs), nontrivial=bool(allr) or bool(pn_exp),
                sample={'le': le, 'aranges_sets': [(s['offset'], s['address_size'], len(s['tuples'])) for s in sets], 'pubnames': len(pn_exp), 'units': len(units),
                        'info_bytes': size, 'lookup_order': order}, checks=len(allr) * 6 + len(pn_exp) + len(pt_exp) + size)


def spaces(tier, seed):
    global SEED
    SEED = seed
    k = 3 if tier == 'quick' else 5
    return [ChoiceSpace('lookup-tables', run, k, rule='free: byte order x container default address size; picks: aranges sets {2,1,3,0} x address size per set {8,4,mixed 8/4/8, mixed 4/8/4} x tuples '
                        '{2,0,1,5} x ranges {sorted, unsorted, adjacent, length 1} x first-set tuples (so that later sets start off their tuple alignment); pubnames/pubtypes sets {2,1,3} x names {2,0,1,5} '
                        '(UTF-8, 70-byte, punctuation); info units {2,1,3} x parameters {same, mixed format, mixed version/address size}; lookup order {ascending, descending, interleaved}; every offset again after every subset (and reversed pair) of unit starts was fetched by offset on a fresh object; queries: '
                        'every range boundary +-1, 0, 2^32-1, 2^64-1; every name; EVERY offset of .debug_info')]
