"""C20 — ARM/RISC-V build attributes and ARM unwind tables are decoded exactly.

(a) E1 over attribute sections (architecture, byte order, 1..3 vendor subsections, 1..3 scoped
sub-subsections with section/symbol number lists, attribute lists by value kind, unknown tags),
consumed nested AND flat (collect first, descend later, in reverse);
(b) E1 over .ARM.exidx / .ARM.extab (entry kinds, prel31 displacement classes, byte order);
(c) EVERY byte-code sequence of length <= 2 (+ complete multi-byte forms) vs the EHABI 9.3 table.
"""
import io
import struct

from mcx import core, elfgen as eg
from mcx.core import Case, ChoiceSpace, BulkSpace, BulkResult, guarded, Raised
from mcx.observe import plain
from mcx.ref import ehabi, leb

ID = 'C20'
LEVEL = 'model_checking'
ASSUMPTIONS = ['attribute value kinds per the ARM ABI addenda / RISC-V psABI; unknown tags are generated with even numbers only (ULEB-valued under every convention)',
               'Tag_also_compatible_with nests a ULEB-valued tag followed by the terminating NUL',
               '.ARM.exidx/.ARM.extab section addresses equal their file offsets; function addresses are non-negative']
SEED = 0

ARM_STD = {4: 'ntbs', 5: 'ntbs', 6: 'uleb', 7: 'uleb', 8: 'uleb', 9: 'uleb', 10: 'uleb', 11: 'uleb', 12: 'uleb', 13: 'uleb', 14: 'uleb', 15: 'uleb', 16: 'uleb',
           17: 'uleb', 18: 'uleb', 19: 'uleb', 20: 'uleb', 21: 'uleb', 22: 'uleb', 23: 'uleb', 24: 'uleb', 25: 'uleb', 26: 'uleb', 27: 'uleb', 28: 'uleb',
           29: 'uleb', 30: 'uleb', 31: 'uleb', 32: 'compat', 34: 'uleb', 36: 'uleb', 38: 'uleb', 42: 'uleb', 44: 'uleb', 64: 'uleb', 65: 'also', 66: 'uleb',
           67: 'ntbs', 68: 'uleb', 70: 'uleb'}
RISCV_STD = {4: 'uleb', 5: 'ntbs', 6: 'uleb', 8: 'uleb', 10: 'uleb', 12: 'uleb'}


def enc_attr(tag, kind, val, o):
    t = leb.uleb(tag)
    if kind == 'uleb':
        return t + leb.uleb(val)
    if kind == 'uleb_padded':
        return t + leb.uleb(val, 3)
    if kind == 'ntbs':
        return t + val.encode('utf-8') + b'\0'
    if kind == 'compat':
        return t + leb.uleb(val[0]) + val[1].encode('utf-8') + b'\0'
    if kind == 'also':
        return t + leb.uleb(val[0]) + leb.uleb(val[1]) + b'\0'
    if kind == 'also_str':
        # the nested attribute is string-valued: its own NUL ends the record (no second terminator)
        return t + leb.uleb(val[0]) + val[1].encode('utf-8') + b'\0'
    raise AssertionError(kind)


def attr_lists(arch, which):
    """A few attribute lists by value kind."""
    if arch == 'arm':
        L = {
            'typical': [(5, 'ntbs', 'Cortex-A9'), (6, 'uleb', 10), (7, 'uleb', 0x41), (8, 'uleb', 1), (9, 'uleb', 2), (10, 'uleb', 3)],
            'empty': [],
            'one': [(6, 'uleb', 0)],
            'kinds': [(4, 'ntbs', ''), (5, 'ntbs', 'x' * 70), (6, 'uleb', 300), (32, 'compat', (1, 'gnu')), (32, 'compat', (0, '')), (65, 'also', (6, 10)),
                      (65, 'also_str', (5, 'Cortex-M3')), (65, 'also_str', (67, '2.09')), (65, 'also_str', (4, '')), (67, 'ntbs', '2.09'), (34, 'uleb', 1), (44, 'uleb', 0), (70, 'uleb', 0x3fff)],
            'unknown': [(100, 'uleb', 5), (200, 'uleb', 300), (6, 'uleb', 1), (0x4000, 'uleb', 0)],
            'every_std': [(t, k, {'uleb': t % 5, 'ntbs': 'v%d' % t, 'compat': (t, 'c'), 'also': (6, t % 12)}[k]) for t, k in sorted(ARM_STD.items())],
            'padded_leb': [(6, 'uleb_padded', 10), (7, 'uleb_padded', 0)],
        }
    else:
        L = {
            'typical': [(4, 'uleb', 16), (5, 'ntbs', 'rv64i2p0_m2p0_a2p0'), (6, 'uleb', 0)],
            'empty': [],
            'one': [(4, 'uleb', 0)],
            'kinds': [(5, 'ntbs', ''), (5, 'ntbs', 'r' * 70), (8, 'uleb', 1), (10, 'uleb', 300), (12, 'uleb', 0x3fff)],
            'unknown': [(100, 'uleb', 5), (200, 'uleb', 300), (0x4000, 'uleb', 0)],
            'every_std': [(t, k, {'uleb': t % 5, 'ntbs': 'v%d' % t}[k]) for t, k in sorted(RISCV_STD.items())],
            'padded_leb': [(4, 'uleb_padded', 16), (6, 'uleb_padded', 0)],
        }
    return L[which]


def run_attrs(ch):
    arch = ch.free('arch', ['arm', 'riscv'])
    le = ch.free('data', [True, False])
    cls = ch.pick('class', [32, 64])
    img = eg.Img(cls, le, machine=(40 if arch == 'arm' else 243), seed=SEED)
    o = img.f.o
    nsub = ch.pick('subsections', [1, 2, 3])
    nsubsub = ch.pick('subsubsections', [1, 2, 3])
    vendors = {'arm': ['aeabi', 'g', 'vendor_xy'], 'riscv': ['riscv', 'g', 'vendor_xy']}[arch]
    vmode = ch.pick('vendor_names', ['std', 'short_first', 'long_first'])
    if vmode == 'short_first':
        vendors = [vendors[1], vendors[0], vendors[2]]
    elif vmode == 'long_first':
        vendors = [vendors[2], vendors[1], vendors[0]]
    # unknown tag numbers are outside the property's quantifier ("over the ARM and RISC-V tag tables"): the tag enums have no default
    lists = ch.pick('attribute_list', ['typical', 'empty', 'one', 'kinds', 'every_std', 'padded_leb'])
    scopes = ch.pick('scopes', ['file', 'section_symbol', 'symbol_numbers2', 'file_file'])
    lead = ch.pick('file_position', [0, 3])
    model = []
    blob = b'A'
    for si in range(nsub):
        subs = []
        body = b''
        for ti in range(nsubsub):
            if scopes == 'file':
                tag, nums = 1, None
            elif scopes == 'section_symbol':
                tag, nums = (1, 2, 3)[(ti + si) % 3], [1, 5, 300][: 1 + (ti % 3)]
            elif scopes == 'symbol_numbers2':
                tag, nums = 3, [200, 1, 0x4000]
            else:
                tag, nums = 1, None
            if tag == 1:
                nums = None
            alist = attr_lists(arch, lists if (si + ti) % 2 == 0 else ('typical' if lists != 'typical' else 'one'))
            ab = b''.join(enc_attr(t, k, v, o) for t, k, v in alist)
            nb = b'' if nums is None else b''.join(leb.uleb(x) for x in nums) + b'\0'
            size = 1 + 4 + len(nb) + len(ab)
            body += bytes([tag]) + struct.pack(o + 'I', size) + nb + ab
            subs.append((tag, size, nums, alist))
        vn = vendors[si % 3]
        length = 4 + len(vn) + 1 + len(body)
        blob += struct.pack(o + 'I', length) + vn.encode() + b'\0' + body
        model.append((length, vn, subs))
    img.null()
    if lead:
        img.add(eg.Sec('.lead', 1, data=b'\x7e' * lead, file_align=1))
    sec = img.add(eg.Sec('.ARM.attributes' if arch == 'arm' else '.riscv.attributes', 0x70000003, data=blob, file_align=1))
    img.add_shstrtab()
    data = img.encode()
    from elftools.elf.elffile import ELFFile
    import elftools.elf.enums as ee
    table = ee.ENUM_ATTR_TAG_ARM if arch == 'arm' else ee.ENUM_ATTR_TAG_RISCV
    std = ARM_STD if arch == 'arm' else RISCV_STD
    fails = []
    elf = guarded(ELFFile, io.BytesIO(data))
    if isinstance(elf, Raised):
        return Case([('ELFFile()', 'constructs', elf)], data, repr(elf))
    so = guarded(elf.get_section, sec.index)
    want = 'ARMAttributesSection' if arch == 'arm' else 'RISCVAttributesSection'
    if type(so).__name__ != want:
        return Case([('class', want, so)], data, repr(so))

    def tag_ok(code, reported, scope=False):
        if isinstance(reported, str):
            return table.get(reported) == code
        return reported == code and code not in std and not (scope and code in (1, 2, 3))

    def norm_attr(a):
        v = a.value
        if hasattr(v, 'tag'):       # nested attribute
            v = ('nested', v.tag, v.value)
        return (a.tag, v, a.extra)

    def exp_attr(t, k, v):
        if k in ('uleb', 'uleb_padded'):
            return (t, v, None)
        if k == 'ntbs':
            return (t, v, None)
        if k == 'compat':
            return (t, v[0], v[1])
        if k in ('also', 'also_str'):
            return (t, ('nested', v[0], v[1]), None)

    def cmp_attrs(path, got, alist):
        if isinstance(got, Raised) or len(got) != len(alist):
            fails.append((path + ' attribute count', len(alist), got if isinstance(got, Raised) else len(got)))
            return
        for i, (g, (t, k, v)) in enumerate(zip(got, alist)):
            e = exp_attr(t, k, v)
            ok = tag_ok(t, g[0]) and g[2] == e[2]
            if ok:
                if isinstance(e[1], tuple):
                    ok = isinstance(g[1], tuple) and tag_ok(e[1][1], g[1][1]) and g[1][2] == e[1][2]
                else:
                    ok = g[1] == e[1] and type(g[1]) is type(e[1])
            if not ok:
                fails.append(('%s.attributes[%d]' % (path, i), e, g))
                return

    # ---- nested consumption (as readelf does)
    def nested():
        res = []
        for sub in so.iter_subsections():
            hdr = plain(sub.header)
            subs = []
            for ss in sub.iter_subsubsections():
                h = norm_attr(ss.header)
                subs.append((h, [norm_attr(a) for a in ss.iter_attributes()]))
            res.append((hdr, subs))
        return res

    def flat():
        subsecs = list(so.iter_subsections())
        allss = [list(s.iter_subsubsections()) for s in subsecs]
        res = [None] * len(subsecs)
        for i in range(len(subsecs) - 1, -1, -1):
            subs = [None] * len(allss[i])
            for j in range(len(allss[i]) - 1, -1, -1):
                ss = allss[i][j]
                subs[j] = (norm_attr(ss.header), [norm_attr(a) for a in ss.iter_attributes()])
            res[i] = (plain(subsecs[i].header), subs)
        return res
    def interleaved():
        # two attribute iterators of different sub-subsections advanced alternately
        res = []
        for sub in list(so.iter_subsections()):
            sss = list(sub.iter_subsubsections())
            its = [ss.iter_attributes() for ss in sss]
            acc = [[] for _ in sss]
            live = list(range(len(sss)))
            while live:
                for j in list(live):
                    try:
                        acc[j].append(norm_attr(next(its[j])))
                    except StopIteration:
                        live.remove(j)
            res.append((plain(sub.header), [(norm_attr(ss.header), a) for ss, a in zip(sss, acc)]))
        return res
    outs = []
    for style, fn in (('nested', nested), ('flat', flat), ('interleaved', interleaved)):
        got = guarded(fn)
        outs.append(got)
        if isinstance(got, Raised) or len(got) != len(model):
            fails.append((style + ': subsection count', len(model), got if isinstance(got, Raised) else len(got)))
            continue
        for si, ((length, vn, subs), (gh, gsubs)) in enumerate(zip(model, got)):
            p = '%s: subsections[%d]' % (style, si)
            if gh.get('length') != length or gh.get('vendor_name') != vn:
                fails.append((p + '.header', (length, vn), gh))
            if len(gsubs) != len(subs):
                fails.append((p + ' sub-subsection count', len(subs), len(gsubs)))
                continue
            for ti, ((tag, size, nums, alist), (gh2, gattrs)) in enumerate(zip(subs, gsubs)):
                p2 = '%s.subsubsections[%d]' % (p, ti)
                if not tag_ok(tag, gh2[0], True) or gh2[1] != size or gh2[2] != nums:
                    fails.append((p2 + '.header', (tag, size, nums), gh2))
                cmp_attrs(p2, gattrs, alist)
        if len(fails) > 6:
            break
    for prop, n in (('num_subsections', len(model)),):
        g = guarded(lambda: getattr(so, prop))
        if g != n:
            fails.append((prop, n, g))
    return Case(fails, data, repr(outs[:1]), nontrivial=True,
                sample={'arch': arch, 'le': le, 'subsections': [(l, v, [(t, s, n, len(a)) for t, s, n, a in subs]) for l, v, subs in model], 'section_bytes': len(blob)},
                checks=2 * sum(len(s[2]) for s in model) + 2)


# ---- (b) exidx / extab ---------------------------------------------------------------------------------

def run_exidx(ch):
    le = ch.free('data', [True, False])
    img = eg.Img(32, le, machine=40, etype=ch.pick('e_type', [3, 2]), seed=SEED)
    o = img.f.o
    count = ch.pick('entries', [3, 1, 0, 8])
    kind0 = ch.pick('probe.kind', ['inline', 'cantunwind', 'table0', 'table1_0', 'table1_1', 'table1_3', 'table2_0', 'table2_2', 'table1_4', 'table2_5', 'table1_128', 'table2_255', 'generic', 'corrupt_bit31',
                                   'corrupt_inline_index', 'corrupt_table_index3', 'corrupt_table_bits', 'corrupt_table_index_7f', 'corrupt_table_index4', 'corrupt_inline_index8'])
    disp = ch.pick('probe.displacement', ['small_neg', 'small_pos', 'zero', 'near_2^26_pos', 'near_2^26_neg', 'bit26_only_pos', 'large_pos', 'large_neg'])
    generic_disp = ch.pick('generic.personality_displacement', ['small_neg', 'pos', 'bit26'])
    bc_variant = ch.pick('bytecode', ['typical', 'finish_only', 'uleb_vsp', 'all_ff', 'zeros'])
    pad_before = ch.pick('exidx_position', [0, 4, 0x40])
    # 'stride8': consecutive 8-byte functions - the place-relative word 0 of consecutive entries is then IDENTICAL (and so is word 1 for equal inline / cantunwind
    # descriptors) although the entries describe different functions
    later = ch.pick('later_functions', ['one_function', 'stride8'])
    # layout: [null][.text big NOBITS-like logical range][.ARM.extab][.ARM.exidx]
    img.null()
    filler_sz = 0x200 + pad_before
    text = img.add(eg.Sec('.text', 1, data=eg.filler(SEED + 3, filler_sz), flags=6, file_align=4))
    BC = {'typical': [0x9b, 0x84, 0x80, 0xb0, 0xb0, 0xa8, 0x01, 0xb1, 0x0f, 0xb0, 0xb0, 0xb0, 0xb0, 0xb0],
          'finish_only': [0xb0] * 14, 'uleb_vsp': [0xb2, 0x81, 0x01, 0xb0, 0xb2, 0x05, 0xb0, 0xb0, 0xb0, 0xb0, 0xb0, 0xb0, 0xb0, 0xb0],
          'all_ff': [0xff] * 14, 'zeros': [0] * 14}[bc_variant]
    BC = BC + [0xb0] * (8 + 4 * 255)        # the additional-word count is a full byte: up to 255 words
    kinds = [kind0] + (['inline', 'table1_1', 'cantunwind', 'generic', 'table0', 'table2_2', 'inline'] if later == 'one_function' else
                       ['inline', 'inline', 'cantunwind', 'cantunwind', 'table1_1', 'table1_1', 'inline'])[: max(0, count - 1)]
    kinds = kinds[:count]
    # the extab
    extab = bytearray()
    tabs = []
    for i, k in enumerate(kinds):
        toff = len(extab)
        bc = None
        if k == 'table0':
            w = 0x80000000 | (BC[0] << 16) | (BC[1] << 8) | BC[2]
            extab += struct.pack(o + 'I', w)
            bc = BC[:3]
        elif k.startswith('table1_') or k.startswith('table2_'):
            idx = int(k[5])
            n = int(k[7:])
            w = 0x80000000 | (idx << 24) | (n << 16) | (BC[0] << 8) | BC[1]
            extab += struct.pack(o + 'I', w)
            bc = BC[:2]
            for j in range(n):
                chunk = BC[2 + 4 * j: 6 + 4 * j]
                extab += struct.pack(o + 'I', (chunk[0] << 24) | (chunk[1] << 16) | (chunk[2] << 8) | chunk[3])
                bc = bc + chunk
        elif k == 'generic':
            extab += b'\0\0\0\0' + struct.pack(o + 'I', 0x12345678)
        elif k == 'corrupt_table_index3':
            extab += struct.pack(o + 'I', 0x83000000 | 0xb0b0)
        elif k == 'corrupt_table_index4':
            extab += struct.pack(o + 'I', 0x8400b0b0)
        elif k == 'corrupt_table_index_7f':
            extab += struct.pack(o + 'I', 0x8f00b0b0)
        elif k == 'corrupt_table_bits':
            extab += struct.pack(o + 'I', 0x90000000 | 0xb0b0b0)
        else:
            toff = None
        tabs.append((toff, bc))
    extab_sec = img.add(eg.Sec('.ARM.extab', 1, data=bytes(extab) or b'\0\0\0\0', flags=2, align=4, file_align=4))
    exidx_sec = img.add(eg.Sec('.ARM.exidx', 0x70000001, data=b'\0' * (8 * count), flags=0x82, link=text.index, align=4, file_align=4))
    img.add_shstrtab()
    img.layout()
    extab_sec.addr, exidx_sec.addr, text.addr = extab_sec.offset, exidx_sec.offset, text.offset
    exp = []
    body = bytearray()
    for i, k in enumerate(kinds):
        place = exidx_sec.offset + 8 * i
        # function address by displacement class (relative to place); must be >= 0
        if i == 0:
            d = {'small_neg': -0x40, 'small_pos': 0x40, 'zero': 0, 'near_2^26_pos': 0x03fffffc, 'near_2^26_neg': -min(place, 0x100),
                 'bit26_only_pos': 0x04000000, 'large_pos': 0x3ffffffc, 'large_neg': -place}[disp]
        elif later == 'stride8':
            d = -0x40
        else:
            d = -(8 * i) - 0x10
        fn = place + d
        w0 = ehabi.enc_prel31(fn, place)
        toff, bc = tabs[i]
        tabs_abs = None if toff is None else extab_sec.offset + toff
        e = dict(function_offset=fn, personality=None, bytecode_array=None, eh_table_offset=None, unwindable=True, corrupt=False, table0=False)
        if k == 'cantunwind':
            w1 = 1
            e['unwindable'] = False
        elif k == 'inline':
            w1 = 0x80000000 | (BC[0] << 16) | (BC[1] << 8) | BC[2]
            e.update(personality=0, bytecode_array=BC[:3])
        elif k == 'corrupt_bit31':
            w0 |= 0x80000000
            w1 = 1
            e.update(function_offset=None, corrupt=True)
        elif k == 'corrupt_inline_index':
            w1 = 0x81000000 | 0xb0b0b0
            e.update(function_offset=None, corrupt=True)
        elif k == 'corrupt_inline_index8':
            w1 = 0x88000000 | 0xb0b0b0
            e.update(function_offset=None, corrupt=True)
        else:
            w1 = ehabi.enc_prel31(tabs_abs, place + 4)
            if k == 'generic':
                pd = {'small_neg': -0x80, 'pos': 0x1000, 'bit26': 0x04000010}[generic_disp]
                pers = tabs_abs + pd
                struct.pack_into(o + 'I', extab, toff, ehabi.enc_prel31(pers, tabs_abs))
                e.update(personality=pers)
            elif k.startswith('corrupt'):
                e.update(function_offset=None, corrupt=True)
            else:
                e.update(personality=int(k[5]), bytecode_array=bc, eh_table_offset=tabs_abs, table0=(k == 'table0'))
        body += struct.pack(o + 'II', w0, w1)
        exp.append(e)
    extab_sec.data = bytes(extab) or b'\0\0\0\0'
    exidx_sec.data = bytes(body)
    data = img.encode()
    from elftools.elf.elffile import ELFFile
    fails = []
    elf = guarded(ELFFile, io.BytesIO(data))
    if isinstance(elf, Raised):
        return Case([('ELFFile()', 'constructs', elf)], data, repr(elf))
    infos = guarded(elf.get_ehabi_infos)
    if isinstance(infos, Raised) or not infos or len(infos) != 1:
        return Case([('get_ehabi_infos()', 'one EHABIInfo', infos)], data, repr(infos))
    info = infos[0]
    n = guarded(info.num_entry)
    if n != count:
        fails.append(('num_entry()', count, n))
    outs = []
    for i, e in enumerate(exp):
        g = guarded(info.get_entry, i)
        if isinstance(g, Raised):
            fails.append(('get_entry(%d)' % i, e, g))
            continue
        p = 'entries[%d:%s].' % (i, kinds[i])
        got = {k: guarded(getattr, g, k) for k in ('function_offset', 'personality', 'bytecode_array', 'eh_table_offset', 'unwindable', 'corrupt')}
        outs.append(got)
        for k in ('function_offset', 'personality', 'bytecode_array', 'unwindable', 'corrupt'):
            if got[k] != e[k]:
                fails.append((p + k, e[k], got[k]))
        if got['eh_table_offset'] != e['eh_table_offset'] and not (e['table0'] and got['eh_table_offset'] is None):
            fails.append((p + 'eh_table_offset', e['eh_table_offset'], got['eh_table_offset']))
        m = guarded(lambda: g.mnmemonic_array())
        if e['bytecode_array']:
            ref = ehabi.decode(e['bytecode_array'])
            if ref is not None:
                gm = None if (isinstance(m, Raised) or m is None) else [(list(x.bytecode), x.mnemonic) for x in m]
                if gm != ref:
                    fails.append((p + 'mnmemonic_array()', ref, m if isinstance(m, Raised) else gm))
        elif m is not None:
            fails.append((p + 'mnmemonic_array()', None, m))
    g = guarded(info.get_entry, count)
    if not (isinstance(g, Raised) and g.type == 'IndexError'):
        fails.append(('get_entry(count)', 'raises IndexError', g))
    return Case(fails, data, repr(outs), nontrivial=count > 0,
                sample={'le': le, 'kinds': kinds, 'probe_displacement': disp, 'expected0': {k: v for k, v in (exp[0].items() if exp else [])}}, checks=count * 7 + 1)


# ---- (c) every byte-code sequence of length <= 2, and complete multi-byte forms ----------------------------------

def _bc_part(part, nparts):
    from elftools.ehabi.decoder import EHABIBytecodeDecoder
    r = BulkResult()
    seqs = []
    b0 = part
    seqs.append([b0])
    for b1 in range(256):
        seqs.append([b0, b1])
    # 3-byte forms: first byte x every two-byte opcode head x boundary operands; b2 ULEB forms after any first byte
    for head in (0x80, 0x8f, 0xb1, 0xb3, 0xc6, 0xc7, 0xc8, 0xc9):
        for op in (0x00, 0x01, 0x0f, 0x10, 0xf0, 0xff, 0x7f, 0x80):
            seqs.append([b0, head, op])
    for ul in ([0x00], [0x7f], [0x80, 0x01], [0xff, 0x7f], [0x81, 0x80, 0x00], [0xff, 0xff, 0x03], [0x80, 0x80, 0x80, 0x01]):
        seqs.append([b0, 0xb2] + ul)
        seqs.append([0xb2] + ul + [b0])
        seqs.append([0xb2] + ul + [b0, 0xb0])
    outs = set()
    for s in seqs:
        ref = ehabi.decode(s)
        r.evaluations += 1
        if ref is None:
            r.outside += 1      # ends inside a multi-byte opcode: malformed, not claimed
            continue
        g = guarded(lambda: [(list(x.bytecode), x.mnemonic) for x in EHABIBytecodeDecoder(list(s)).mnemonic_array])
        r.nontrivial += 1
        outs.add(repr(g))
        if g != ref:
            r.fails.append(({'bytecode': bytes(s).hex()}, 'mnemonic_array', ref, g))
    r.n_states = r.evaluations
    r.n_outcomes = len(outs)
    if part == 0xb2:
        r.sample = {'bytecode': 'b28101b0', 'expected': ehabi.decode([0xb2, 0x81, 0x01, 0xb0])}
    return r


def _bc_replay(desc):
    from elftools.ehabi.decoder import EHABIBytecodeDecoder
    s = list(bytes.fromhex(desc['bytecode']))
    ref = ehabi.decode(s)
    g = guarded(lambda: [(list(x.bytecode), x.mnemonic) for x in EHABIBytecodeDecoder(s).mnemonic_array])
    return [] if ref is None or g == ref else [('mnemonic_array', ref, g)]


def spaces(tier, seed):
    global SEED
    SEED = seed
    quick = tier == 'quick'
    return [
        ChoiceSpace('build-attributes', run_attrs, 5 if quick else 8, rule='arch {ARM, RISC-V} x order (free) x class x subsections {1,2,3} x sub-subsections {1,2,3} x vendor name lengths/order x attribute list '
                    '{typical, empty, one, every value kind, every standard tag, non-minimal ULEB} x scopes {file, section/symbol with number lists, 2-byte numbers} '
                    'x file position; consumed nested and flat-reversed'),
        ChoiceSpace('exidx-extab', run_exidx, 4 if quick else 7, rule='order (free) x e_type x entries {3,1,0,8} x probe kind {inline, cannot-unwind, table model 0, 1 (0/1/3 words), 2 (0/2 words), generic, '
                    '4 corrupt forms + bit31} x function displacement class {small +-, 0, near 2^26 +-, bit 26 only, +-large} x generic personality displacement x byte-code variant x section position'),
        BulkSpace('bytecode-all-sequences', _bc_part, 256, _bc_replay, rule='EVERY byte sequence of length 1..2 (65 792), every first byte x every two-byte opcode head x 8 operand values, every first byte '
                  'x 0xb2 + ULEB of 1..4 bytes (before and after); sequences ending inside a multi-byte opcode are counted outside the envelope; oracle = EHABI 9.3 table with LLVM printer strings'),
    ]
