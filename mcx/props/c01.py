"""C01 — ELF file, section and program headers are decoded exactly as encoded.

E1: a nondeterministic image builder (class x order free; machine, OS ABI, e_type,
table placement, entry sizes, section/segment counts, a typed probe section of every
dispatch kind, a wide probe section/segment with boundary field values, section-name
sharing) explored to deviation bound k, each image decoded through the public API and
compared field by field with the model that produced the bytes.  Extended numbering
(>= 0xff00 sections, string-table index through SHN_XINDEX, PN_XNUM) is a finite list
of big images.
"""
import io

from mcx import core, elfgen as eg
from mcx.core import Case, ChoiceSpace, ListSpace, guarded, Raised
from mcx.observe import plain
from mcx.ref import names, hashes

ID = 'C01'
LEVEL = 'model_checking'
ASSUMPTIONS = ['images are well-formed: typed sections carry minimal valid content for their kind; wild offsets/sizes only on SHT_NOBITS / PT_NULL probes',
               'symbolic names follow the rule of DESIGN.md 2.2 (registry-confirmed; losing a pinned name alarms, gaining one does not)']

SEED = 0
MACHINES = [62, 3, 40, 183, 8, 243, 10, 21, 22, 258, 247, 0, 0x1234, 0xffff]
OSABIS = [0, 3, 6, 97, 255, 200]
ETYPES = [3, 1, 2, 4, 0, 5, 0xfe00, 0xff00, 0xffff]


def _sym(f, name, value=0, size=0, info=0x12, other=0, shndx=1):
    return f.sym(name, value, size, info, other, shndx)


def _probe_kinds(f, machine):
    """label -> (sh_type code, name, dict of Sec kwargs) — minimal valid content per kind.
    Indices of the fixed base sections: 2 = .dynstr (STRTAB), 3 = .dynsym (DYNSYM, 3 symbols)."""
    o = f.o
    import struct as S
    syms2 = _sym(f, 0, info=0, shndx=0) + _sym(f, 1)
    note = S.pack(o + 'III', 4, 4, 1) + b'GNU\0' + S.pack(o + 'I', 0)
    vn = S.pack(o + 'HHIII', 1, 1, 1, 16, 0) + S.pack(o + 'IHHII', 0x0d696914, 0, 2, 5, 0)
    vd = S.pack(o + 'HHHHIII', 1, 1, 1, 1, 0x1234, 20, 0) + S.pack(o + 'II', 1, 0)
    attr_sub = b'aeabi\0' + b'\x01' + S.pack(o + 'I', 7) + b'\x06\x01'
    attrs = b'A' + S.pack(o + 'I', 4 + len(attr_sub)) + attr_sub
    nm = ['', 'libc.so', 'foo']
    K = {
        'progbits': (1, '.probe', dict(data=b'0123456789abcdef', flags=6, align=16)),
        'nobits': (8, '.probe', dict(size=0x1000, flags=3, align=32)),
        'strtab': (3, '.probe', dict(data=b'\0abc\0')),
        'null': (0, '.probe', dict()),
        'symtab': (2, '.probe', dict(data=syms2, link=2, info=1, entsize=f.symsize, align=8)),
        'dynsym': (11, '.probe', dict(data=syms2, link=2, info=1, entsize=f.symsize, align=8, flags=2)),
        'ldynsym': (0x6ffffff3, '.probe', dict(data=syms2, link=2, info=1, entsize=f.symsize, align=8)),
        'symtab_shndx': (18, '.probe', dict(data=S.pack(o + 'III', 0, 1, 1), link=3, entsize=4, align=4)),
        'syminfo': (0x6ffffffc, '.probe', dict(data=S.pack(o + 'HHHHHH', 0, 0, 0xffff, 1, 0xfffe, 2), link=3, entsize=4, align=2)),
        'verneed': (0x6ffffffe, '.probe', dict(data=vn, link=2, info=1, align=4, flags=2)),
        'verdef': (0x6ffffffd, '.probe', dict(data=vd, link=2, info=1, align=4, flags=2)),
        'versym': (0x6fffffff, '.probe', dict(data=S.pack(o + 'HHH', 0, 1, 2), link=3, entsize=2, align=2, flags=2)),
        'rel': (9, '.probe', dict(data=f.rel(0x10, f.r_info(1, 1)), link=3, info=1, entsize=f.relsize, align=8, flags=0x40)),
        'rela': (4, '.probe', dict(data=f.rela(0x10, f.r_info(1, 1), -4), link=3, info=1, entsize=f.relasize, align=8, flags=0x40)),
        'dynamic': (6, '.probe', dict(data=f.dyn(1, 1) + f.dyn(0, 0), link=2, entsize=f.dynsize, align=8, flags=3)),
        'note': (7, '.probe', dict(data=note, align=4, flags=2)),
        'stab': (1, '.stab', dict(data=S.pack(o + 'IBBHI', 1, 0x64, 0, 0, 0x1000), entsize=12, align=4)),
        'attributes': (0x70000003, '.probe', dict(data=attrs)),
        'hash': (5, '.probe', dict(data=hashes.build_sysv(nm, 3, f.le), link=3, entsize=4, align=8, flags=2)),
        'gnu_hash': (0x6ffffff6, '.probe', dict(data=hashes.build_gnu(hashes.gnu_order(nm, 1, 2), 1, 2, 1, 6, f.cls, f.le), link=3, align=8, flags=2)),
        'relr': (19, '.probe', dict(data=f.addr(0x2000), entsize=f.wordsize, align=8, flags=2)),
        'init_array': (14, '.probe', dict(data=f.addr(0x1000), entsize=f.wordsize, align=8, flags=3)),
        'group': (17, '.probe', dict(data=S.pack(o + 'II', 1, 1), link=3, info=1, entsize=4, align=4)),
        'os_unknown': (0x60000123, '.probe', dict(data=b'xy')),
        'gnu_liblist': (0x6ffffff7, '.probe', dict(data=b'')),
        'proc_1': (0x70000001, '.probe', dict(data=b'\1\2\3\4\5\6\7\x08', link=1, flags=0x82, align=4)),
        'proc_0': (0x70000000, '.probe', dict(data=b'zz')),
        'proc_unknown': (0x7000ffff, '.probe', dict(data=b'zz')),
        'proc_6': (0x70000006, '.probe', dict(data=b'zzzz')),
        'user': (0x80000005, '.probe', dict(data=b'u')),
        'max': (0xffffffff, '.probe', dict(data=b'u')),
        'reserved': (0x1234, '.probe', dict(data=b'r')),
        'preinit': (16, '.probe', dict(data=f.addr(0), entsize=f.wordsize)),
        'shlib': (10, '.probe', dict(data=b'')),
    }
    return K


KIND_ORDER = ['progbits', 'nobits', 'strtab', 'null', 'symtab', 'dynsym', 'ldynsym', 'symtab_shndx', 'syminfo', 'verneed', 'verdef',
              'versym', 'rel', 'rela', 'dynamic', 'note', 'stab', 'attributes', 'hash', 'gnu_hash', 'relr', 'init_array', 'group',
              'os_unknown', 'gnu_liblist', 'proc_1', 'proc_0', 'proc_unknown', 'proc_6', 'user', 'max', 'reserved', 'preinit', 'shlib']

P_TYPES = [1, 0, 2, 3, 4, 5, 6, 7, 0x6474e550, 0x6474e551, 0x6474e552, 0x6474e553, 0x6ffffffa, 0x6ffffffb,
           0x70000000, 0x70000001, 0x70000002, 0x70000003, 8, 0x12345678, 0x60000000, 0x6fffffff, 0x7fffffff, 0x80000000, 0xffffffff]


def expected_section_class(code, machine, name):
    base = {3: 'StringTableSection', 0: 'NullSection', 2: 'SymbolTableSection', 11: 'SymbolTableSection',
            0x6ffffff3: 'SymbolTableSection', 18: 'SymbolTableIndexSection', 0x6ffffffc: 'SUNWSyminfoTableSection',
            0x6ffffffe: 'GNUVerNeedSection', 0x6ffffffd: 'GNUVerDefSection', 0x6fffffff: 'GNUVerSymSection',
            9: 'RelocationSection', 4: 'RelocationSection', 6: 'DynamicSection', 7: 'NoteSection',
            5: 'ELFHashSection', 0x6ffffff6: 'GNUHashSection', 19: 'RelrRelocationSection'}
    if code in base:
        return base[code]
    if code == 1 and name == '.stab':
        return 'StabSection'
    if code == 0x70000003 and machine == 40:
        return 'ARMAttributesSection'
    if code == 0x70000003 and machine == 243:
        return 'RISCVAttributesSection'
    return 'Section'


def expected_segment_class(code):
    return {3: 'InterpSegment', 2: 'DynamicSegment', 4: 'NoteSegment'}.get(code, 'Segment')


def build(ch, seed=0):
    cls = ch.free('class', [64, 32])
    le = ch.free('data', [True, False])
    machine = ch.pick('e_machine', MACHINES)
    img = eg.Img(cls, le, machine=machine, seed=seed)
    f = img.f
    allones = f.mask
    img.osabi = ch.pick('EI_OSABI', OSABIS)
    img.abiver = ch.pick('EI_ABIVERSION', [0, 1, 255])
    img.ei_version = ch.pick('EI_VERSION', [1, 0, 2, 255])
    img.etype = ch.pick('e_type', ETYPES)
    img.version = ch.pick('e_version', [1, 0, 2, 0xffffffff])
    img.entry = ch.pick('e_entry', [0x401000, 0, 1, allones])
    img.flags = ch.pick('e_flags', [0, 1, 0x05000200, 0x80000000, 0xffffffff])
    img.ph_place = ch.pick('ph_place', ['after_ehdr', 'after_data', 'odd_gap'])
    img.sh_place = ch.pick('sh_place', ['after_data', 'after_ehdr', 'odd_gap'])
    img.shentsize_extra = ch.pick('e_shentsize', [0, 8, 24])
    img.phentsize_extra = ch.pick('e_phentsize', [0, 8, 24])
    nsec = ch.pick('nsections', ['std', 'none', 'two', 'twelve'])
    nseg = ch.pick('nsegments', ['std', 'none', 'one', 'six'])

    text = dynstr = dynsym = probe = wide = None
    if nsec == 'none':
        img.strip_shdrs = True
    elif nsec == 'two':
        img.null()
        img.add_shstrtab()
    else:
        img.null()
        text = img.add(eg.Sec('.text', 1, data=eg.filler(seed + 1, 40), flags=6, addr=0x401000, align=16))
        dynstr = img.add(eg.Sec('.dynstr', 3, data=b'\0libc.so\0foo\0', flags=2, addr=0x400200))
        syms = _sym(f, 0, info=0, shndx=0) + _sym(f, 1, 0x401000, 8) + _sym(f, 9, 0x401008, 4, info=0x11)
        dynsym = img.add(eg.Sec('.dynsym', 11, data=syms, flags=2, addr=0x400100, link=2, info=1, align=8, entsize=f.symsize))
        kinds = _probe_kinds(f, machine)
        kind = ch.pick('probe.kind', KIND_ORDER)
        code, pname, kw = kinds[kind]
        generic = kind in ('progbits', 'os_unknown', 'proc_0', 'proc_unknown', 'proc_6', 'user', 'max', 'reserved', 'nobits', 'gnu_liblist')
        if kind == 'progbits':
            pname = ch.pick('probe.name', ['.probe', 'text', '', '.text', '.prøbe€', '.' + 'n' * 69])
        kw = dict(kw)
        kw.setdefault('addr', 0x402000)
        if generic:
            kw['flags'] = ch.pick('probe.sh_flags', [kw.get('flags', 0), 0, 1, 0x80000000, allones & ~0x800])
            kw['link'] = ch.pick('probe.sh_link', [kw.get('link', 0), 1, 0xffffffff])
            kw['info'] = ch.pick('probe.sh_info', [kw.get('info', 0), 1, 0xffffffff])
            kw['align'] = ch.pick('probe.sh_addralign', [kw.get('align', 1), 0, allones])
            kw['entsize'] = ch.pick('probe.sh_entsize', [kw.get('entsize', 0), 1, allones])
            kw['addr'] = ch.pick('probe.sh_addr', [0x402000, 0, 1, allones])
        probe = img.add(eg.Sec(pname, code, **kw))
        wide = img.add(eg.Sec('.bss', 8, flags=3, addr=ch.pick('wide.sh_addr', [0x403000, 0, 1, allones]),
                              size=ch.pick('wide.sh_size', [0x100, 0, 1, allones]),
                              offset=ch.pick('wide.sh_offset', [None, 0, 1, allones]),
                              link=ch.pick('wide.sh_link', [0, 1, 0xffffffff]),
                              info=ch.pick('wide.sh_info', [0, 1, 0xffffffff]),
                              align=ch.pick('wide.sh_addralign', [8, 0, 1, allones]),
                              entsize=ch.pick('wide.sh_entsize', [0, 1, allones])))
        if nsec == 'twelve':
            img.add(eg.Sec('.data', 1, data=b'd' * 24, flags=3, addr=0x404000, align=8))
            img.add(eg.Sec('.rodata', 1, data=b'r' * 7, flags=2, addr=0x405000))
            img.add(eg.Sec('.comment', 1, data=b'GCC\0', flags=0x30, entsize=1))
            img.add(eg.Sec('.rel.text', 9, data=f.rel(4, f.r_info(1, 2)), link=3, info=1, entsize=f.relsize, align=8))
            img.add(eg.Sec('.note.x', 7, data=b'', flags=2, align=4))
            img.add(eg.Sec('.data', 1, data=b'D' * 3, flags=3, addr=0x406000))
        img.shstr_mode = ch.pick('shstrtab.layout', ['plain', 'suffix'])
        img.add_shstrtab()
    # segments
    if nseg != 'none':
        ptype = ch.pick('probe.p_type', P_TYPES)
        tprobe = eg.Seg(ptype, flags=ch.pick('probe.p_flags', [5, 0, 7, 0x0ff00000, 0xf0000000, 0xffffffff]),
                        align=ch.pick('probe.p_align', [0x1000, 0, 1, allones]))
        if text is not None:
            tprobe.of = text
            tprobe.memsz = 0x60
        else:
            tprobe.offset, tprobe.filesz, tprobe.vaddr, tprobe.memsz = 0, f.ehsize, 0x400000, f.ehsize
        widep = eg.Seg(0, flags=ch.pick('wide.p_flags', [0, 4, 0xffffffff]),
                       offset=ch.pick('wide.p_offset', [0, 1, 0x1234, allones]),
                       vaddr=ch.pick('wide.p_vaddr', [0, 1, 0x400000, allones]),
                       paddr=ch.pick('wide.p_paddr', [0, 1, 0x7000000, allones]),
                       filesz=ch.pick('wide.p_filesz', [0, 1, 0x40, allones]),
                       memsz=ch.pick('wide.p_memsz', [0, 1, 0x80, allones]),
                       align=ch.pick('wide.p_align', [0, 1, 8, allones]))
        if nseg == 'one':
            img.seg(tprobe)
        elif nseg == 'std':
            img.seg(eg.Seg(1, flags=5, of=text, align=0x1000) if text is not None else eg.Seg(1, 5, 0, 0x400000, None, f.ehsize, f.ehsize, 0x1000))
            img.seg(tprobe)
            img.seg(widep)
        else:
            img.seg(eg.Seg(6, flags=4, offset=f.ehsize, vaddr=0x400000 + f.ehsize, filesz=6 * f.phsize, align=8))
            if dynstr is not None:
                img.seg(eg.Seg(3, flags=4, of=dynstr))
            else:
                img.seg(eg.Seg(0x6474e551, flags=6))
            img.seg(eg.Seg(1, flags=5, of=text, align=0x1000) if text is not None else eg.Seg(1, 5, 0, 0x400000, None, f.ehsize, f.ehsize, 0x1000))
            img.seg(tprobe)
            img.seg(widep)
            img.seg(eg.Seg(0x6474e551, flags=6, align=16))
    data = img.encode()
    return img, data


# ---- observation and comparison -----------------------------------------------------------

def compare_image(img, data, deep=True, sec_indices=None, seg_indices=None):
    """Decode `data` with the library and compare with the model.  Returns (fails, outcome)."""
    from elftools.elf.elffile import ELFFile
    fails = []
    f = img.f
    machine = img.machine

    def bad(path, exp, obs):
        fails.append((path, exp, obs))

    elf = guarded(ELFFile, io.BytesIO(data))
    if isinstance(elf, Raised):
        return [('ELFFile()', 'constructs', elf)], repr(elf)
    out = []
    sec_out = []
    seg_out = []
    # -- file header
    h, _ = img.header_fields()
    hdr = guarded(lambda: plain(elf.header))
    if isinstance(hdr, Raised):
        return [('header', 'dict', hdr)], repr(hdr)
    out.append(hdr)
    eid = hdr.get('e_ident', {})
    exp_ident = {'EI_MAG': [0x7f, 0x45, 0x4c, 0x46], 'EI_CLASS': 'ELFCLASS%d' % img.cls, 'EI_DATA': 'ELFDATA2LSB' if img.le else 'ELFDATA2MSB',
                 'EI_ABIVERSION': img.abiver}
    for k, v in exp_ident.items():
        if eid.get(k) != v:
            bad('header.e_ident.' + k, v, eid.get(k))
    for kind, key, code, src in (('e_version', 'EI_VERSION', img.ei_version, eid), ('osabi', 'EI_OSABI', img.osabi, eid),
                                 ('e_type', 'e_type', img.etype, hdr), ('e_machine', 'e_machine', machine, hdr),
                                 ('e_version', 'e_version', img.version, hdr)):
        r = names.check(kind, '*', code, src.get(key))
        if r:
            bad('header.' + key, r[0], r[1])
    for k in ('e_entry', 'e_phoff', 'e_shoff', 'e_flags', 'e_ehsize', 'e_phentsize', 'e_phnum', 'e_shentsize', 'e_shnum', 'e_shstrndx'):
        ev = h[k] & f.mask if k == 'e_entry' else h[k]
        if hdr.get(k) != ev:
            bad('header.' + k, ev, hdr.get(k))
    if set(hdr) != {'e_ident', 'e_type', 'e_machine', 'e_version', 'e_entry', 'e_phoff', 'e_shoff', 'e_flags', 'e_ehsize', 'e_phentsize',
                    'e_phnum', 'e_shentsize', 'e_shnum', 'e_shstrndx'}:
        bad('header.keys', 'the 14 gABI fields', sorted(hdr))
    for attr, ev in (('elfclass', img.cls), ('little_endian', img.le), ('e_ident_raw', data[:16])):
        g = guarded(getattr, elf, attr)
        if g != ev:
            bad(attr, ev, g)
    # -- sections
    secs = [] if img.strip_shdrs else img.secs
    n = guarded(elf.num_sections)
    if n != len(secs):
        bad('num_sections()', len(secs), n)
        return fails, repr(out)
    it = None
    if sec_indices is None:
        it = guarded(lambda: list(elf.iter_sections()))
        if isinstance(it, Raised) or len(it) != len(secs):
            bad('iter_sections()', '%d sections' % len(secs), it if isinstance(it, Raised) else len(it))
            return fails, repr(out)
    by_name = {}
    for i, s in (enumerate(secs) if sec_indices is None else [(i, secs[i]) for i in sec_indices]):
        so = guarded(elf.get_section, i)
        if isinstance(so, Raised):
            bad('get_section(%d)' % i, 'section', so)
            continue
        eh = dict(sh_name=s.name_off, sh_flags=s.flags & f.mask, sh_addr=s.addr & f.mask, sh_offset=s.offset & f.mask,
                  sh_size=s.sh_size() & f.mask, sh_link=s.link & 0xffffffff, sh_info=s.info & 0xffffffff,
                  sh_addralign=s.align & f.mask, sh_entsize=s.entsize & f.mask)
        oh = guarded(lambda: plain(so.header))
        if isinstance(oh, Raised):
            bad('sections[%d].header' % i, 'dict', oh)
            continue
        for k, v in eh.items():
            if oh.get(k) != v:
                bad('sections[%d].header.%s' % (i, k), v, oh.get(k))
        r = names.check('sh_type', machine, s.type, oh.get('sh_type'), machine)
        if r:
            bad('sections[%d].header.sh_type' % i, r[0], r[1])
        if set(oh) != set(eh) | {'sh_type'}:
            bad('sections[%d].header.keys' % i, sorted(set(eh) | {'sh_type'}), sorted(oh))
        if so.name != s.name:
            bad('sections[%d].name' % i, s.name, so.name)
        ecls = expected_section_class(s.type, machine, s.name)
        if type(so).__name__ != ecls:
            bad('sections[%d].class' % i, ecls, type(so).__name__)
        if it is not None:
            io_ = it[i]
            if type(io_) is not type(so) or guarded(lambda: plain(io_.header)) != oh or io_.name != so.name:
                bad('iter_sections()[%d]' % i, 'equal to get_section(%d)' % i, (type(io_).__name__, io_.name))
        if deep:
            for k in eh:
                g = guarded(lambda: so[k])
                if g != oh.get(k):
                    bad('sections[%d][%r]' % (i, k), oh.get(k), g)
        by_name.setdefault(s.name, []).append(i)
        sec_out.append((i, so.name, type(so).__name__, oh))
    if deep and sec_indices is None:
        for nm, idxs in list(by_name.items()) + [('.absent', [])]:
            gi = guarded(elf.get_section_index, nm)
            hs = guarded(elf.has_section, nm)
            gs = guarded(elf.get_section_by_name, nm)
            if idxs:
                if gi not in idxs:
                    bad('get_section_index(%r)' % nm, 'one of %r' % idxs, gi)
                if hs is not True:
                    bad('has_section(%r)' % nm, True, hs)
                if isinstance(gs, Raised) or gs is None or gs.name != nm or guarded(lambda: plain(gs.header)) not in [o[3] for o in sec_out if o[0] in idxs]:
                    bad('get_section_by_name(%r)' % nm, 'a section named %r' % nm, gs if isinstance(gs, Raised) or gs is None else gs.name)
            else:
                if gi is not None:
                    bad('get_section_index(%r)' % nm, None, gi)
                if hs is not False:
                    bad('has_section(%r)' % nm, False, hs)
                if gs is not None:
                    bad('get_section_by_name(%r)' % nm, None, gs)
        # iter_sections(type=T) for every reported string type
        types = {}
        for o in sec_out:
            t = o[3].get('sh_type')
            if isinstance(t, str):
                types.setdefault(t, []).append(o[0])
        for t, idxs in sorted(types.items()):
            g = guarded(lambda: [plain(s_.header) for s_ in elf.iter_sections(type=t)])
            e = [o[3] for o in sec_out if o[0] in idxs]
            if g != e:
                bad('iter_sections(type=%r)' % t, 'sections %r' % idxs, g if isinstance(g, Raised) else len(g))
    # -- segments
    segs = img.segs
    n = guarded(elf.num_segments)
    if n != len(segs):
        bad('num_segments()', len(segs), n)
        return fails, repr(out)
    its = None
    if seg_indices is None:
        its = guarded(lambda: list(elf.iter_segments()))
        if isinstance(its, Raised) or len(its) != len(segs):
            bad('iter_segments()', '%d segments' % len(segs), its if isinstance(its, Raised) else len(its))
            return fails, repr(out)
    for i, g in (enumerate(segs) if seg_indices is None else [(i, segs[i]) for i in seg_indices]):
        so = guarded(elf.get_segment, i)
        if isinstance(so, Raised):
            bad('get_segment(%d)' % i, 'segment', so)
            continue
        eh = dict(p_flags=g.flags & 0xffffffff, p_offset=g.offset & f.mask, p_vaddr=g.vaddr & f.mask, p_paddr=g.paddr & f.mask,
                  p_filesz=g.filesz & f.mask, p_memsz=g.memsz & f.mask, p_align=g.align & f.mask)
        oh = guarded(lambda: plain(so.header))
        if isinstance(oh, Raised):
            bad('segments[%d].header' % i, 'dict', oh)
            continue
        for k, v in eh.items():
            if oh.get(k) != v:
                bad('segments[%d].header.%s' % (i, k), v, oh.get(k))
        r = names.check('p_type', machine, g.type, oh.get('p_type'), machine)
        if r:
            bad('segments[%d].header.p_type' % i, r[0], r[1])
        if set(oh) != set(eh) | {'p_type'}:
            bad('segments[%d].header.keys' % i, sorted(set(eh) | {'p_type'}), sorted(oh))
        ecls = expected_segment_class(g.type)
        if type(so).__name__ != ecls:
            bad('segments[%d].class' % i, ecls, type(so).__name__)
        if its is not None and (type(its[i]) is not type(so) or guarded(lambda: plain(its[i].header)) != oh):
            bad('iter_segments()[%d]' % i, 'equal to get_segment(%d)' % i, type(its[i]).__name__)
        if deep:
            for k in eh:
                gv = guarded(lambda: so[k])
                if gv != oh.get(k):
                    bad('segments[%d][%r]' % (i, k), oh.get(k), gv)
        seg_out.append(('seg', i, type(so).__name__, oh))
    if deep and seg_indices is None:
        types = {}
        for o in seg_out:
            if isinstance(o[3].get('p_type'), str):
                types.setdefault(o[3]['p_type'], []).append(o[3])
        for t, e in sorted(types.items()):
            gl = guarded(lambda: [plain(s_.header) for s_ in elf.iter_segments(type=t)])
            if gl != e:
                bad('iter_segments(type=%r)' % t, '%d segments' % len(e), gl if isinstance(gl, Raised) else len(gl))
    return fails, repr((out, sec_out, seg_out))


def run(ch):
    img, data = build(ch, SEED)
    fails, outcome = compare_image(img, data)
    nsec = 0 if img.strip_shdrs else len(img.secs)
    sample = {'bytes': len(data), 'class': img.cls, 'le': img.le, 'e_machine': img.machine, 'sections': nsec, 'segments': len(img.segs),
              'head_hex': data[:24].hex()}
    return Case(fails=fails, input=data, outcome=outcome, nontrivial=(nsec + len(img.segs)) > 0, sample=sample,
                checks=nsec + len(img.segs) + 1)


# ---- extended numbering: big images ---------------------------------------------------------

def _big_gen_factory(tier):
    def gen():
        combos = [(64, True)] if tier == 'quick' else [(64, True), (64, False), (32, True), (32, False)]
        for cls, le in combos:
            for variant in ('many_sections', 'shstrndx_xindex', 'pn_xnum', 'all_three'):
                yield {'class': cls, 'le': le, 'variant': variant}
        # small-table sanity companions (escape values NOT in use)
        yield {'class': 64, 'le': True, 'variant': 'just_below'}
    return gen


def _big_build(desc):
    cls, le, v = desc['class'], desc['le'], desc['variant']
    img = eg.Img(cls, le, seed=SEED)
    f = img.f
    img.null()
    nsec = {'many_sections': 0xff00 + 5, 'shstrndx_xindex': 0xff00 + 9, 'pn_xnum': 6, 'all_three': 0xff42, 'just_below': 0xfeff}[v]
    nseg = {'many_sections': 2, 'shstrndx_xindex': 1, 'pn_xnum': 0xffff + 3, 'all_three': 0x10001, 'just_below': 0xfffe}[v]
    if v in ('many_sections', 'pn_xnum', 'just_below'):
        img.add_shstrtab()          # index 1: small string-table index
    blob = img.add(eg.Sec('.blob', 1, data=b'B' * 64, flags=2, addr=0x1000))
    while len(img.secs) < nsec - (0 if img.shstr is not None else 1):
        i = len(img.secs)
        img.add(eg.Sec('.s%d' % (i % 50), 8 if i % 3 else 1, data=b'', size=(i if i % 3 else None), flags=i & 7, addr=0x10000 + i,
                       link=i & 0xff, info=i >> 8, align=1 << (i % 5), entsize=i % 7, offset=blob.offset if False else None))
    if img.shstr is None:
        img.add_shstrtab()          # last: index >= 0xff00
    for i in range(nseg):
        img.seg(eg.Seg([1, 4, 0x6474e551, 0, 7][i % 5], flags=i & 7, offset=(i * 8) & 0xfff, vaddr=0x400000 + i, filesz=i & 0x3f, memsz=(i & 0x3f) + 1, align=8))
    return img, img.encode()


def _big_check(desc):
    img, data = _big_build(desc)
    nsec, nseg = len(img.secs), len(img.segs)
    # full enumeration of headers would cost O(n) library parses (~65k): do the complete
    # count/name checks and compare every 97th section/segment plus all boundary indices
    sidx = sorted(set(list(range(0, nsec, 97)) + [0, 1, 2, nsec - 1, nsec - 2, min(nsec - 1, 0xfeff), min(nsec - 1, 0xff00), min(nsec - 1, 0xff01), img.shstr.index]))
    gidx = sorted(set(list(range(0, nseg, 97)) + [0, nseg - 1, min(nseg - 1, 0xfffe), min(nseg - 1, 0xffff), min(nseg - 1, 0x10000)])) if nseg else []
    fails, outcome = compare_image(img, data, deep=False, sec_indices=sidx, seg_indices=gidx)
    from elftools.elf.elffile import ELFFile
    elf = guarded(ELFFile, io.BytesIO(data))
    if not isinstance(elf, Raised):
        g = guarded(elf.get_shstrndx)
        if g != img.shstr.index:
            fails.append(('get_shstrndx()', img.shstr.index, g))
        for nm in ('.blob', '.shstrtab'):
            gi = guarded(elf.get_section_index, nm)
            ei = [s.index for s in img.secs if s.name == nm]
            if gi not in ei:
                fails.append(('get_section_index(%r)' % nm, ei, gi))
        cnt = guarded(lambda: sum(1 for _ in elf.iter_segments()))
        if cnt != nseg:
            fails.append(('len(iter_segments())', nseg, cnt))
    h, _ = img.header_fields()
    return fails, True, outcome, data[:64] + repr((nsec, nseg)).encode()


def spaces(tier, seed):
    global SEED
    SEED = seed
    k = 2 if tier == 'quick' else 3
    return [
        ChoiceSpace('image-headers', run, k,
                    rule='builder choices: class x order (free); e_machine(14) OSABI ABIVERSION EI_VERSION e_type e_version e_entry e_flags table placement(3x3) '
                         'entry sizes section-count(4) segment-count(4) typed probe section(34 kinds) name sharing, generic-probe fields, wide NOBITS probe fields, '
                         'typed probe segment(25 p_types) and wide PT_NULL probe fields; non-trivial = at least one section or segment decoded and compared',
                    deadline_s=(240 if tier == 'quick' else 3000)),
        ListSpace('extended-numbering', _big_gen_factory(tier), _big_check, nparts=8,
                  rule='big images: >=0xff00 sections (e_shnum=0, count in section 0), name-table index >=0xff00 via SHN_XINDEX, >=0xffff segments via PN_XNUM, '
                       'all three together, and a just-below-the-escape companion; counts, name lookups and every 97th + boundary header compared'),
    ]
