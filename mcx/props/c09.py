"""C09 — dynamic linking information is exact, with or without section headers.

E1 over an ET_DYN image model (tag sequence, string offsets, PT_LOAD layout/bias, hash kinds,
symbol count, relocation tables) rendered in three container VIEWS from the same model:
full section headers; section headers stripped (e_shoff = 0); a .dynamic section whose offset
differs from the PT_DYNAMIC segment (forcing the DT_STRTAB fallback).  Every view is compared
with the model (tags incl. terminator, string attributes, symbols, relocation tables, table
offsets), hence with each other.
"""
import io
import struct

from mcx import core, elfgen as eg
from mcx.core import Case, ChoiceSpace, guarded, Raised
from mcx.observe import plain
from mcx.ref import names as nm, hashes
from mcx.props.c03 import check_symbol

ID = 'C09'
LEVEL = 'model_checking'
ASSUMPTIONS = ['dynamic pointers are mapped by PT_LOAD segments that wholly contain them; strings are valid UTF-8',
               'symbol count is only claimed when a SysV or GNU hash table is present (as the property states)']
SEED = 0

DT = dict(NULL=0, NEEDED=1, PLTRELSZ=2, PLTGOT=3, HASH=4, STRTAB=5, SYMTAB=6, RELA=7, RELASZ=8, RELAENT=9, STRSZ=10, SYMENT=11, INIT=12, FINI=13,
          SONAME=14, RPATH=15, SYMBOLIC=16, REL=17, RELSZ=18, RELENT=19, PLTREL=20, DEBUG=21, TEXTREL=22, JMPREL=23, BIND_NOW=24, RUNPATH=29, FLAGS=30,
          RELRSZ=35, RELR=36, RELRENT=37, GNU_HASH=0x6ffffef5, FLAGS_1=0x6ffffffb, VERNEED=0x6ffffffe, RELACOUNT=0x6ffffff9,
          MIPS_RLD_VERSION=0x70000001, AARCH64_BTI_PLT=0x70000001, SUNW_RTLDINF=0x6000000e, SUNW_FILTER=0x6000000f, SUNW_CAP=0x60000010)


def build_views(ch):
    cls = ch.free('class', [64, 32])
    le = ch.free('data', [True, False])
    machine = ch.pick('e_machine', [62, 8, 183, 40, 243])
    osabi = ch.pick('EI_OSABI', [0, 6, 3])
    extras = ch.pick('extra_tags', ['typical', 'none', 'machine', 'solaris', 'unknown', 'duplicates', 'negative_like'])
    after = ch.pick('after_terminator', [0, 2])
    strplace = ch.pick('string_offsets', ['middle', 'start', 'last'])
    layout = ch.pick('pt_load_layout', ['one', 'two_bias', 'two_bias_ptrs_in_second', 'three_with_gap', 'adjacent_in_memory'])
    hash_kind = ch.pick('hash', ['gnu', 'sysv', 'both', 'neither'])
    nsym = ch.pick('symbol_count', [4, 1, 40])
    relkind = ch.pick('reloc_tables', ['rela+jmprel', 'rel+jmprel_rel', 'relr', 'none', 'all', 'rela+jmprel_rel', 'rel+jmprel_rela'])      # the last two mix flavours: DT_PLTREL alone decides JMPREL
    nrel = ch.pick('reloc_entries', [3, 0, 1])
    gnu_symoff = ch.pick('gnu.symoffset', [1, 'count', 2])
    gnu_nb = ch.pick('gnu.nbuckets', [2, 1, 5])
    dyn_seg_extra = ch.pick('pt_dynamic_filesz', ['exact', 'to_terminator_only'])

    f = eg.Fmt(cls, le)
    # ---- strings
    st = eg.StrTab({'middle': b'\0lead\0', 'start': b'\0', 'last': b'\0' + b'p' * 200 + b'\0'}[strplace])
    s_needed = ['libc.so.6', 'libm-é.so']
    s_off = {n: st.add(n) for n in s_needed + ['libself.so.1', '/opt/lib:$ORIGIN', '$ORIGIN/../lib', 'filter.so']}
    # ---- symbols
    names = [''] + ['dsym%d' % i for i in range(1, nsym)]
    if ch.pick('symbol_names', ['unique', 'one_name_twice']) == 'one_name_twice' and nsym >= 3:
        names[-2] = names[-1]           # two definitions of one name (foo@V1, foo@@V2): a by-name query must return both, through whatever table it goes
    symoff = {'count': nsym}.get(gnu_symoff, gnu_symoff)
    symoff = min(symoff, nsym)
    if hash_kind in ('gnu', 'both'):
        names = hashes.gnu_order(names, symoff, gnu_nb)
    soffs = [st.add(n) for n in names]
    syms = [dict(value=0x1000 + 8 * i, size=i, info=0x12 if i else 0, other=0, shndx=(7 if i else 0)) for i in range(nsym)]
    symbytes = b''.join(f.sym(soffs[i], s['value'], s['size'], s['info'], s['other'], s['shndx']) for i, s in enumerate(syms))
    # ---- relocation tables
    rela = [(0x3000 + 8 * i, f.r_info(i % max(nsym, 1), 6 + i), -i * 8) for i in range(nrel)]
    rel = [(0x3100 + 8 * i, f.r_info(i % max(nsym, 1), 7 + i)) for i in range(nrel)]
    plt = [(0x3200 + 8 * i, f.r_info((i + 1) % max(nsym, 1), 7), i) for i in range(nrel)]
    relr_words = [0x4000, 0b1011, 0x5000][:nrel]
    want_rela = relkind in ('rela+jmprel', 'all', 'rela+jmprel_rel')
    want_rel = relkind in ('rel+jmprel_rel', 'all', 'rel+jmprel_rela')
    want_relr = relkind in ('relr', 'all')
    want_plt = relkind not in ('relr', 'none')
    plt_is_rela = relkind in ('rela+jmprel', 'all', 'rel+jmprel_rela')
    relabytes = b''.join(f.rela(*r) for r in rela)
    relbytes = b''.join(f.rel(*r) for r in rel)
    pltbytes = b''.join((f.rela(*r) if plt_is_rela else f.rel(r[0], r[1])) for r in plt)
    relrbytes = b''.join(f.addr(w) for w in relr_words)

    def make(view):
        img = eg.Img(cls, le, machine=machine, etype=3, osabi=osabi, seed=SEED)
        img.null()
        secs = {}
        secs['hash'] = img.add(eg.Sec('.hash', 5, data=hashes.build_sysv(names, 3, le), flags=2, link=3, entsize=4, align=8)) if hash_kind in ('sysv', 'both') else None
        secs['gnu'] = img.add(eg.Sec('.gnu.hash', 0x6ffffff6, data=hashes.build_gnu(names, symoff, gnu_nb, 2, 6, cls, le), flags=2, align=8)) if hash_kind in ('gnu', 'both') else None
        secs['dynsym'] = img.add(eg.Sec('.dynsym', 11, data=symbytes, flags=2, info=1, entsize=f.symsize, align=8))
        if layout == 'adjacent_in_memory':
            # 0x40 unmapped file bytes before the string table: the first PT_LOAD ends in memory exactly where the second begins, with a different bias
            img.add(eg.Sec('.unmapped', 1, data=b'U' * 0x40, flags=0, file_align=1))
        secs['dynstr'] = img.add(eg.Sec('.dynstr', 3, data=st.bytes(), flags=2, file_align=1 if layout == 'adjacent_in_memory' else None))
        secs['dynsym'].link = secs['dynstr'].index
        for k in ('hash', 'gnu'):
            if secs[k] is not None:
                secs[k].link = secs['dynsym'].index
        secs['rela'] = img.add(eg.Sec('.rela.dyn', 4, data=relabytes, flags=2, link=secs['dynsym'].index, entsize=f.relasize, align=8)) if want_rela else None
        secs['rel'] = img.add(eg.Sec('.rel.dyn', 9, data=relbytes, flags=2, link=secs['dynsym'].index, entsize=f.relsize, align=8)) if want_rel else None
        secs['plt'] = img.add(eg.Sec('.rela.plt' if plt_is_rela else '.rel.plt', 4 if plt_is_rela else 9, data=pltbytes, flags=0x42, link=secs['dynsym'].index,
                                     entsize=f.relasize if plt_is_rela else f.relsize, align=8)) if want_plt else None
        secs['relr'] = img.add(eg.Sec('.relr.dyn', 19, data=relrbytes, flags=2, entsize=f.wordsize, align=8)) if want_relr else None
        if layout == 'three_with_gap':
            img.add(eg.Sec('.gapfill', 1, data=b'G' * 0x40, flags=2))
        # tag list (values filled after layout)
        tags = []

        def tag(name, val):
            tags.append((DT[name] if isinstance(name, str) else name, val))
        tag('NEEDED', s_off[s_needed[0]])
        tag('NEEDED', s_off[s_needed[1]])
        tag('SONAME', s_off['libself.so.1'])
        tag('RPATH', s_off['/opt/lib:$ORIGIN'])
        tag('RUNPATH', s_off['$ORIGIN/../lib'])
        if hash_kind in ('sysv', 'both'):
            tag('HASH', ('addr', 'hash'))
        if hash_kind in ('gnu', 'both'):
            tag('GNU_HASH', ('addr', 'gnu'))
        tag('STRTAB', ('addr', 'dynstr'))
        tag('SYMTAB', ('addr', 'dynsym'))
        tag('STRSZ', len(st.bytes()))
        tag('SYMENT', f.symsize)
        if want_rela:
            tag('RELA', ('addr', 'rela'))
            tag('RELASZ', len(relabytes))
            tag('RELAENT', f.relasize)
        if want_rel:
            tag('REL', ('addr', 'rel'))
            tag('RELSZ', len(relbytes))
            tag('RELENT', f.relsize)
        if want_plt:
            tag('JMPREL', ('addr', 'plt'))
            tag('PLTRELSZ', len(pltbytes))
            tag('PLTREL', 7 if plt_is_rela else 17)
        if want_relr:
            tag('RELR', ('addr', 'relr'))
            tag('RELRSZ', len(relrbytes))
            tag('RELRENT', f.wordsize)
        if extras in ('typical', 'duplicates', 'machine', 'solaris', 'unknown', 'negative_like'):
            tag('FLAGS', 0x8)
            tag('FLAGS_1', 0x08000001)
        if extras == 'machine':
            tag(0x70000001, 1)
            tag(0x70000005, 0x1234)
            tag(0x7000002b, 0)
        if extras == 'solaris':
            tag('SUNW_RTLDINF', 0x77)
            tag('SUNW_FILTER', s_off['filter.so'])
            tag('SUNW_CAP', 0)
        if extras == 'unknown':
            tag(0x12345, f.mask)
            tag(0x6fffff00, 1)
            tag(0x60000123, 2)
            tag(-1, 7)                          # d_tag is a SIGNED word (Elf32_Sword / Elf64_Sxword)
            tag(-(1 << (cls - 1)), 3)
        if extras == 'duplicates':
            tag('SONAME', s_off['libc.so.6'])
            tag('STRSZ', 1)
            tag('NEEDED', s_off['libself.so.1'])
        if extras == 'negative_like':
            tag(0x7fffffff, 5)                   # DT_FILTER
            tag(0x7ffffffd, s_off['filter.so'])  # DT_AUXILIARY
        tag('NULL', 0)
        nreal = len(tags)
        for i in range(after):
            tags.append((DT['NEEDED'], s_off['libc.so.6']) if i == 0 else (DT['DEBUG'], 0x99))
        dynsize = len(tags) * f.dynsize
        secs['dynamic'] = img.add(eg.Sec('.dynamic', 6, data=b'\0' * dynsize, flags=3, link=secs['dynstr'].index, entsize=f.dynsize, align=8))
        if view == 'dyn_section_moved':
            secs['dyncopy'] = img.add(eg.Sec('.dyncopy', 1, data=b'\0' * dynsize, flags=3, align=8))
            # the section-level table of this view links to a decoy string table: the segment must not use it
            decoy = img.add(eg.Sec('.decoystr', 3, data=bytes((b if b == 0 else 0x58) for b in st.bytes())))
            secs['dynamic'].link = decoy.index
        img.add_shstrtab()
        if view == 'stripped':
            img.strip_shdrs = True
        nloads = {'one': 1, 'two_bias': 2, 'two_bias_ptrs_in_second': 2, 'three_with_gap': 3, 'adjacent_in_memory': 2}[layout]
        segs = [img.seg(eg.Seg(1, 5, align=0x1000)) for _ in range(nloads)] + [img.seg(eg.Seg(2, 6, align=8))]
        total = img.layout()
        # ---- address map
        order = [s for s in img.secs if s.type != 0 and s is not img.shstr]
        first2 = None
        if layout == 'one':
            loads = [(0, total, 0x400000)]
        else:
            # second PT_LOAD starts at a chosen section
            pivot = secs['dynstr'] if layout in ('two_bias_ptrs_in_second', 'adjacent_in_memory') else secs['dynamic']
            if layout == 'three_with_gap':
                pivot = secs['dynstr']
            cut = pivot.offset
            loads = [(0, cut, 0x400000), (cut, total - cut, 0x600000 + (cut & 0xfff))]
            if layout == 'adjacent_in_memory':
                va2 = 0x600000 + (cut & 0xfff)
                loads = [(0, cut - 0x40, va2 - (cut - 0x40)), (cut, total - cut, va2)]
            if layout == 'three_with_gap':
                cut2 = secs['dynamic'].offset
                loads = [(0, cut, 0x400000), (cut, cut2 - cut - 0x20, 0x600000 + (cut & 0xfff)), (cut2, total - cut2, 0x900000)]

        def v_of(off):
            for lo, n, va in loads:
                if lo <= off < lo + n:
                    return va + (off - lo)
            raise AssertionError('offset %#x not mapped' % off)
        for s in order:
            if s.flags & 2:
                s.addr = v_of(s.offset)
        final = []
        for t, v in tags:
            if isinstance(v, tuple):
                v = secs[v[1]].addr
            final.append((t, v))
        dynbytes = b''.join(f.dyn(t if t < (1 << (cls - 1)) else t - (1 << cls), v) for t, v in final)
        secs['dynamic'].data = dynbytes
        dynsrc = secs['dynamic']
        if view == 'dyn_section_moved':
            secs['dyncopy'].data = dynbytes
            dynsrc = secs['dyncopy']
        for g, (lo, n, va) in zip(segs, loads):
            g.offset, g.vaddr, g.paddr, g.filesz, g.memsz = lo, va, va, n, n
        fs = (nreal * f.dynsize) if dyn_seg_extra == 'to_terminator_only' else dynsize
        g = segs[-1]
        g.offset, g.vaddr, g.paddr, g.filesz, g.memsz = dynsrc.offset, dynsrc.addr, dynsrc.addr, fs, fs
        data = img.encode()
        assert img.total == total
        model = dict(tags=final, nreal=nreal, secs=secs, loads=loads, dynseg_index=len(loads), img=img, v_of=v_of)
        return data, model
    views = {}
    for view in ('full', 'stripped', 'dyn_section_moved'):
        views[view] = make(view)
    meta = dict(cls=cls, le=le, machine=machine, osabi=osabi, names=names, soffs=soffs, syms=syms, hash_kind=hash_kind, nsym=nsym, strings=s_off, f=f,
                rela=rela if want_rela else None, rel=rel if want_rel else None, plt=(plt, plt_is_rela) if want_plt else None,
                relr=relr_words if want_relr else None, st=st)
    return views, meta


def expected_relr(words, wordsize):
    """RELR expansion per the generic-abi proposal: even word = address; odd word = bitmap for the next 8*wordsize-1 words."""
    out = []
    base = None
    for w in words:
        if w & 1 == 0:
            out.append(w)
            base = w + wordsize
        else:
            bits = w >> 1
            i = 0
            while bits:
                if bits & 1:
                    out.append(base + i * wordsize)
                bits >>= 1
                i += 1
            base += (8 * wordsize - 1) * wordsize
    return out


def check_dynamic(label, dyn, meta, model, fails, is_segment):
    f = meta['f']
    ctx = '%d:%d' % (meta['machine'], meta['osabi'])
    tags = model['tags'][:model['nreal']]
    strings = {v: k for k, v in meta['strings'].items()}
    got = guarded(lambda: list(dyn.iter_tags()))
    if isinstance(got, Raised) or len(got) != len(tags):
        fails.append((label + '.iter_tags()', '%d tags' % len(tags), got if isinstance(got, Raised) else len(got)))
        return None
    n = guarded(dyn.num_tags)
    if n != len(tags):
        fails.append((label + '.num_tags()', len(tags), n))
    dump = []
    for i, ((t, v), g) in enumerate(zip(tags, got)):
        e = guarded(lambda: plain(g.entry))
        p = '%s.tags[%d]' % (label, i)
        if isinstance(e, Raised):
            fails.append((p, 'entry', e))
            continue
        r = nm.check('d_tag', ctx, t, e.get('d_tag'), meta['machine'])
        if r:
            fails.append((p + '.d_tag', r[0], r[1]))
        if e.get('d_val') != v & f.mask or e.get('d_ptr') != v & f.mask:
            fails.append((p + '.d_val/d_ptr', v & f.mask, (e.get('d_val'), e.get('d_ptr'))))
        attr = {1: 'needed', 14: 'soname', 15: 'rpath', 29: 'runpath'}.get(t)
        if t == 0x6000000f and meta['osabi'] == 6 and meta['machine'] not in (8, 183):
            attr = 'sunw_filter'
        if attr:
            gv = guarded(getattr, g, attr)
            if gv != strings[v]:
                fails.append((p + '.' + attr, strings[v], gv))
        for other in ('needed', 'soname', 'rpath', 'runpath'):
            if other != attr and hasattr(g, other):
                fails.append((p + ' has attribute ' + other, 'absent', getattr(g, other)))
        g2 = guarded(lambda: plain(dyn.get_tag(i).entry))
        if g2 != e:
            fails.append(('%s.get_tag(%d)' % (label, i), e, g2))
        dump.append((e.get('d_tag'), e.get('d_val'), guarded(getattr, g, attr) if attr else None))
    # beyond the terminator
    # typed iteration
    for tname, code in (('DT_NEEDED', 1), ('DT_SONAME', 14), ('DT_NULL', 0), ('DT_STRSZ', 10)):
        gt = guarded(lambda: [plain(x.entry)['d_val'] for x in dyn.iter_tags(tname)])
        et = [v for t, v in tags if t == code]
        if gt != et:
            fails.append(('%s.iter_tags(%r)' % (label, tname), et, gt))
    # table offsets
    for tname, code in (('DT_STRTAB', 5), ('DT_SYMTAB', 6), ('DT_HASH', 4), ('DT_GNU_HASH', 0x6ffffef5), ('DT_JMPREL', 23), ('DT_INIT', 12)):
        vals = [v for t, v in tags if t == code]
        g = guarded(dyn.get_table_offset, tname)
        if vals:
            ptr = vals[0]
            offs = [lo + (ptr - va) for lo, n_, va in model['loads'] if va <= ptr and ptr + 1 <= va + n_]
            exp = (ptr, offs[0] if offs else None)
        else:
            exp = (None, None)
        if g != exp:
            fails.append(('%s.get_table_offset(%r)' % (label, tname), exp, g))
    # relocation tables
    rt = guarded(dyn.get_relocation_tables)
    if isinstance(rt, Raised):
        fails.append((label + '.get_relocation_tables()', 'dict', rt))
    else:
        expk = set()
        for key, ent, is_rela in (('RELA', meta['rela'], True), ('REL', meta['rel'], False),
                                  ('JMPREL', meta['plt'][0] if meta['plt'] else None, meta['plt'][1] if meta['plt'] else None)):
            if ent is None:
                continue
            expk.add(key)
            tb = rt.get(key)
            if tb is None:
                continue
            ge = guarded(lambda: [plain(r.entry) for r in tb.iter_relocations()])
            ee = []
            for r in ent:
                d = dict(r_offset=r[0] & f.mask, r_info=r[1], r_info_sym=(r[1] >> 8) if f.cls == 32 else (r[1] >> 32),
                         r_info_type=(r[1] & 0xff) if f.cls == 32 else (r[1] & 0xffffffff))
                if is_rela:
                    d['r_addend'] = r[2]
                ee.append(d)
            if meta['machine'] == 8 and f.cls == 64:
                ge = [{k: v for k, v in x.items() if k in ('r_offset', 'r_info', 'r_info_sym', 'r_info_type', 'r_addend')} for x in ge] if not isinstance(ge, Raised) else ge
                for d in ee:    # MIPS64 packs r_info differently: compare through the model of the packed layout
                    raw = f.pack(f.A, d['r_info'])
                    sym = struct.unpack(f.o + 'I', raw[:4])[0]
                    d['r_info_sym'], d['r_info_type'] = sym, raw[7]
                    d['r_info'] = (sym << 32) | (raw[4] << 24) | (raw[5] << 16) | (raw[6] << 8) | raw[7]
            if ge != ee or guarded(tb.is_RELA) != is_rela or guarded(tb.num_relocations) != len(ee):
                fails.append(('%s.get_relocation_tables()[%r]' % (label, key), ee[:2], ge if isinstance(ge, Raised) else ge[:2]))
        if meta['relr'] is not None:
            expk.add('RELR')
            tb = rt.get('RELR')
            if tb is not None:
                ge = guarded(lambda: [r['r_offset'] for r in tb.iter_relocations()])
                ee = expected_relr(meta['relr'], f.wordsize)
                if ge != ee or guarded(tb.num_relocations) != len(ee):
                    fails.append(('%s.get_relocation_tables()[RELR]' % label, ee, ge))
        if set(rt) != expk:
            fails.append((label + '.get_relocation_tables() keys', sorted(expk), sorted(rt)))
    # symbols through the segment
    if is_segment and meta['hash_kind'] != 'neither':
        n = guarded(dyn.num_symbols)
        if n != meta['nsym']:
            fails.append((label + '.num_symbols()', meta['nsym'], n))
        else:
            lst = guarded(lambda: list(dyn.iter_symbols()))
            if isinstance(lst, Raised) or len(lst) != meta['nsym']:
                fails.append((label + '.iter_symbols()', meta['nsym'], lst if isinstance(lst, Raised) else len(lst)))
            else:
                for i, sym in enumerate(lst):
                    check_symbol('%s.symbols[%d]' % (label, i), sym, f, meta['names'][i], meta['soffs'][i], meta['syms'][i], fails)
                    if len(fails) > 6:
                        break
            for q in [meta['names'][-1], meta['names'][0], 'absent']:
                idxs = [i for i, nme in enumerate(meta['names']) if nme == q]
                g = guarded(dyn.get_symbol_by_name, q)
                if not idxs:
                    if g is not None:
                        fails.append(('%s.get_symbol_by_name(%r)' % (label, q), None, g))
                elif isinstance(g, Raised) or g is None or [s.name for s in g] != [q] * len(idxs) or [s['st_value'] for s in g] != [meta['syms'][i]['value'] for i in idxs]:
                    fails.append(('%s.get_symbol_by_name(%r)' % (label, q), idxs, g))
    return dump


def run(ch):
    views, meta = build_views(ch)
    from elftools.elf.elffile import ELFFile
    fails = []
    dumps = {}
    inp = b''
    for vname, (data, model) in views.items():
        inp += data
        elf = guarded(ELFFile, io.BytesIO(data))
        if isinstance(elf, Raised):
            fails.append((vname + ': ELFFile()', 'constructs', elf))
            continue
        seg = guarded(elf.get_segment, model['dynseg_index'])
        if type(seg).__name__ != 'DynamicSegment':
            fails.append((vname + ': PT_DYNAMIC class', 'DynamicSegment', seg))
            continue
        dumps[vname + '/segment'] = check_dynamic(vname + '/segment', seg, meta, model, fails, True)
        if vname == 'full':
            sec = guarded(elf.get_section, model['secs']['dynamic'].index)
            if type(sec).__name__ != 'DynamicSection':
                fails.append((vname + ': .dynamic class', 'DynamicSection', sec))
            else:
                dumps[vname + '/section'] = check_dynamic(vname + '/section', sec, meta, model, fails, False)
    vals = [d for d in dumps.values() if d is not None]
    if vals and any(v != vals[0] for v in vals[1:]):
        fails.append(('views agree', 'identical tag dumps', 'different'))
    return Case(fails, inp, repr(vals[:1]), nontrivial=True,
                sample={'class': meta['cls'], 'le': meta['le'], 'machine': meta['machine'], 'tags': [(hex(t), hex(v)) for t, v in views['full'][1]['tags']][:8],
                        'views': list(views), 'symbols': meta['nsym'], 'hash': meta['hash_kind']}, checks=5 * (len(views['full'][1]['tags']) + meta['nsym']))


def spaces(tier, seed):
    global SEED
    SEED = seed
    k = 3 if tier == 'quick' else 4
    return [ChoiceSpace('dynamic-three-views', run, k, rule='machine {x86-64,MIPS,AArch64,ARM,RISC-V} x OSABI {SYSV,SOLARIS,LINUX} x extra tags {typical,none,machine-specific,Solaris,unknown,duplicates,high} '
                        'x entries after terminator {0,2} x string offsets x PT_LOAD layout {one, two biases, pointers in second, three with gap} x hash {gnu,sysv,both,neither} x symbol count {4,1,40} '
                        'x relocation tables {rela+jmprel, rel+jmprel(rel), relr, none, all} x entries {3,0,1} x GNU symoffset/nbuckets x PT_DYNAMIC size; each execution checks 3 container views '
                        '(5 objects) against the model', deadline_s=(300 if tier == 'quick' else 3000))]
