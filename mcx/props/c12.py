"""C12 — DWARF expressions are split into exactly their operations and operands.

Complete products over the operation table (reference: mcx/ref/exprtable.py from DWARF 5 7.7.1):
(1) every operation x every operand boundary class x non-minimal LEB paddings x address size x
format x byte order; (2) ALL ordered pairs of operations; (3) all triples over a sub-alphabet with
one operation of every operand kind; (4) entry_value nesting to depth 3 over all inner pairs of a
12-letter alphabet; (5) the empty expression and 300-operation programs.  Oracle: the encoded
sequence (op, name, args with sign/width, offset) recursively; re-encoding the PARSED result with
the reference encoder reproduces the input bytes; names <-> opcodes one-to-one.
"""
import itertools

from mcx import core
from mcx.core import BulkSpace, BulkResult, ListSpace, guarded, Raised
from mcx.ref import exprtable as X

ID = 'C12'
LEVEL = 'model_checking'
ASSUMPTIONS = ['operand signatures transcribed from DWARF 5 table 7.9 and the GCC/LLVM extension descriptions (DW_OP_GNU_parameter_ref: 4-byte offset)',
               'DW_OP_call_ref / implicit_pointer offsets are sized by the DWARF format for structs of every version (what the library documents; GNU sizes implicit_pointer by the address in DWARF 2)']

_PARSERS = {}


def parser(p, ver=5):
    k = (p.le, p.fmt, p.addr, ver)
    if k not in _PARSERS:
        from elftools.dwarf.structs import DWARFStructs
        from elftools.dwarf.dwarf_expr import DWARFExprParser
        _PARSERS[k] = DWARFExprParser(DWARFStructs(little_endian=p.le, dwarf_format=p.fmt, address_size=p.addr, dwarf_version=ver))
    return _PARSERS[k]


def name_ok(code, reported):
    from mcx.props.c17 import registry
    reg = registry()
    if not isinstance(reported, str):
        return False
    if reported in reg:
        return code in reg[reported]
    import elftools.dwarf.dwarf_expr as dx
    return dx.DW_OP_name2opcode.get(reported) == code


def norm(parsed):
    """library result -> [(op, name, args, offset)] with nested expressions normalised recursively."""
    out = []
    for o in parsed:
        args = []
        for a in o.args:
            if isinstance(a, list) and a and hasattr(a[0], 'op_name'):
                args.append(('expr', norm(a)))
            elif isinstance(a, list):
                args.append(list(a))
            else:
                args.append(a)
        out.append((o.op, o.op_name, args, o.offset))
    return out


def expected(ops, p, pad=0, base=0):
    """model ops -> [(op, args-as-the-API-presents-them, offset)]"""
    out = []
    off = base
    for code, args in ops:
        kinds = X.OPS[code][1]
        eargs = []
        for kind, v in zip(kinds, args):
            if kind == 'expr':
                eargs.append(('expr', expected(v, p, 0, 0)))
            elif kind in ('block',):
                eargs.append(list(v))
            elif kind == 'tblock':
                eargs.append(list(v))
            elif kind == 'wasm':
                eargs.extend([v[0], v[1]])
            else:
                eargs.append(v)
        out.append((code, eargs, off))
        off += len(X.enc_op((code, args), p, pad))
    return out


def to_model(nparsed):
    """normalised library result -> model ops for re-encoding with the reference encoder."""
    ops = []
    for code, name, args, off in nparsed:
        kinds = X.OPS.get(code, (None, None))[1]
        if kinds is None:
            return None
        margs = []
        it = iter(args)
        for kind in kinds:
            if kind == 'wasm':
                margs.append((next(it), next(it)))
            elif kind == 'expr':
                a = next(it)
                sub = to_model(a[1]) if isinstance(a, tuple) else ([] if a == [] else None)
                if sub is None:
                    return None
                margs.append(sub)
            else:
                margs.append(next(it))
        ops.append((code, margs))
    return ops


def check_expr(ops, p, pad=0, ver=5):
    data = X.enc_expr(ops, p, pad)
    got = guarded(lambda: norm(parser(p, ver).parse_expr(list(data))))
    exp = expected(ops, p, pad)
    fails = []
    if isinstance(got, Raised):
        return [('parse_expr', '%d operations' % len(exp), got)], data, repr(got)
    if len(got) != len(exp):
        return [('parse_expr length', len(exp), len(got))], data, repr(got)
    for i, (g, e) in enumerate(zip(got, exp)):
        nm = X.OPS[e[0]][0]
        if g[0] != e[0]:
            fails.append(('ops[%d].op (%s)' % (i, nm), e[0], g[0]))
        elif not name_ok(e[0], g[1]):
            fails.append(('ops[%d].op_name' % i, nm, g[1]))
        elif not _args_eq(g[2], e[1]):
            fails.append(('ops[%d].args (%s)' % (i, nm), e[1] if len(repr(e[1])) < 200 else repr(e[1])[:200], g[2] if len(repr(g[2])) < 200 else repr(g[2])[:200]))
        elif g[3] != e[2]:
            fails.append(('ops[%d].offset (%s)' % (i, nm), e[2], g[3]))
        if fails:
            break
    if not fails and pad == 0:
        m = to_model(got)
        try:
            re = X.enc_expr(m, p) if m is not None else None
        except Exception as ex:     # noqa: BLE001 - a parsed value the encoder cannot represent
            re = 'unencodable: %r' % ex
        if re != data:
            fails.append(('re-encoding the parsed result', data.hex()[:80], re.hex()[:80] if isinstance(re, bytes) else re))
    return fails, data, repr(got)


def _args_eq(g, e):
    if len(g) != len(e):
        return False
    for a, b in zip(g, e):
        if isinstance(b, tuple) and b[0] == 'expr':
            if a == [] and b[1] == []:
                continue
            if not (isinstance(a, tuple) and a[0] == 'expr' and len(a[1]) == len(b[1])):
                return False
            for x, y in zip(a[1], b[1]):
                if x[0] != y[0] or not name_ok(y[0], x[1]) or not _args_eq(x[2], y[1]) or x[3] != y[2]:
                    return False
        elif type(a) is bool or a != b or isinstance(a, float):
            return False
    return True


PARAMS = [X.P(le, fmt, addr) for le in (True, False) for fmt in (32, 64) for addr in (4, 8)]


def _run_cases(cases, r, label):
    """cases: iterable of (desc, ops, p, pad)"""
    outs = set()
    for desc, ops, p, pad in cases:
        fails, data, out = check_expr(ops, p, pad)
        r.evaluations += 1
        r.states.add(core.digest(data + bytes([p.le, p.fmt, p.addr])))
        outs.add(core.digest(out))
        if ops:
            r.nontrivial += 1
        if fails:
            f = fails[0]
            r.fails.append((desc, f[0], f[1], f[2]))
    r.outcomes |= outs


# (1) every op x operand boundary values x paddings x parameters
def _single_cases():
    for pi, p in enumerate(PARAMS):
        for code in sorted(X.OPS):
            kinds = X.OPS[code][1]
            if not kinds:
                yield ({'space': 'single', 'param': pi, 'op': code, 'vals': [], 'pad': 0}, [(code, [])], p, 0)
                continue
            # vary one operand over all its classes, the others at their first non-zero class
            base = [X.values(k, p)[1] for k in kinds]
            for ai, k in enumerate(kinds):
                for vi, v in enumerate(X.values(k, p)):
                    args = list(base)
                    args[ai] = v
                    pads = (0, 3, 10) if k in ('uleb', 'sleb', 'block', 'expr', 'wasm') else (0,)
                    for pad in pads:
                        if pad and k in ('uleb', 'sleb') and len(X.enc_operand(k, v, p)) >= pad:
                            continue
                        if k == 'wasm' and v[0] == 3 and pad:
                            continue
                        yield ({'space': 'single', 'param': pi, 'op': code, 'arg': ai, 'val': vi, 'pad': pad}, [(code, args)], p, pad)


def _single_part(part, n):
    r = BulkResult()
    _run_cases((c for i, c in enumerate(_single_cases()) if i % n == part), r, 'single')
    if part == 0:
        p = PARAMS[0]
        r.sample = {'op': 'DW_OP_bregx', 'args': [300, -300], 'bytes': X.enc_op((0x92, [300, -300]), p).hex()}
    return r


# (2) all ordered pairs
def _pair_cases(params):
    codes = sorted(X.OPS)
    for pi in params:
        p = PARAMS[pi]
        for a in codes:
            for b in codes:
                yield ({'space': 'pairs', 'param': pi, 'ops': [a, b]}, [X.representative(a, p), X.representative(b, p)], p, 0)


def _pair_part_factory(params):
    def fn(part, n):
        r = BulkResult()
        _run_cases((c for i, c in enumerate(_pair_cases(params)) if i % n == part), r, 'pairs')
        if part == 0:
            r.sample = {'ops': ['DW_OP_addr', 'DW_OP_addr'], 'param': 'LSB/32/4'}
        return r
    return fn


# (3) all triples over a sub-alphabet holding one op of every operand kind
SUB = [0x03, 0x08, 0x09, 0x0a, 0x0b, 0x0c, 0x0d, 0x0e, 0x0f, 0x10, 0x11, 0x06, 0x30, 0x50, 0x71, 0x92, 0x9a, 0x9e, 0xa3, 0xa4, 0xa6, 0xa0, 0xed, 0xfa]


def _triple_cases(params):
    for pi in params:
        p = PARAMS[pi]
        for t in itertools.product(SUB, repeat=3):
            yield ({'space': 'triples', 'param': pi, 'ops': list(t)}, [X.representative(c, p) for c in t], p, 0)


def _triple_part_factory(params):
    def fn(part, n):
        r = BulkResult()
        _run_cases((c for i, c in enumerate(_triple_cases(params)) if i % n == part), r, 'triples')
        return r
    return fn


# (4) nesting depth 3 with every inner pair over 12 letters; (5) empty and long programs
NEST = [0x96, 0x30, 0x08, 0x11, 0x03, 0x91, 0x92, 0x9e, 0xa4, 0x9a, 0x50, 0xa8]


def _nest_cases():
    for pi in (0, 7):
        p = PARAMS[pi]
        for outer in (0xa3, 0xf3):
            for a in NEST:
                for b in NEST:
                    inner = [X.representative(a, p), X.representative(b, p)]
                    d1 = [(outer, [inner])]
                    d2 = [(0x30, []), (outer, [[(0x31, [])] + d1 + [(0x9f, [])]])]
                    d3 = [(outer, [d2 + [(0xa3, [d1])]]), (0x96, [])]
                    for depth, ops in ((1, d1), (2, d2), (3, d3)):
                        yield ({'space': 'nest', 'param': pi, 'outer': outer, 'inner': [a, b], 'depth': depth}, ops, p, 0)
    for pi, p in enumerate(PARAMS):
        yield ({'space': 'nest', 'param': pi, 'empty': True}, [], p, 0)
        codes = sorted(X.OPS)
        yield ({'space': 'nest', 'param': pi, 'long': 300}, [X.representative(codes[i % len(codes)], p) for i in range(300)], p, 0)
        yield ({'space': 'nest', 'param': pi, 'long': 'all'}, [X.representative(c, p) for c in codes], p, 0)


def _nest_part(part, n):
    r = BulkResult()
    _run_cases((c for i, c in enumerate(_nest_cases()) if i % n == part), r, 'nest')
    return r


def _replay(desc):
    sp = desc['space']
    gen = {'single': _single_cases, 'pairs': lambda: _pair_cases(range(8)), 'triples': lambda: _triple_cases(range(8)), 'nest': _nest_cases}[sp]()
    for d, ops, p, pad in gen:
        if d == desc:
            return check_expr(ops, p, pad)[0]
    raise core.HarnessError('case not found %r' % desc)


# names <-> opcodes
def _names_gen():
    yield 'one-to-one'
    yield 'all-standard-ops-supported'


def _names_check(which):
    import elftools.dwarf.dwarf_expr as dx
    fails = []
    if which == 'one-to-one':
        for n, c in sorted(dx.DW_OP_name2opcode.items()):
            if n in ('DW_OP_lo_user', 'DW_OP_hi_user'):
                continue
            back = dx.DW_OP_opcode2name.get(c)
            if back != n and not (back in ('DW_OP_lo_user', 'DW_OP_hi_user')):
                fails.append(('opcode2name[name2opcode[%s]]' % n, n, back))
            if not name_ok(c, n):
                fails.append(('DW_OP_name2opcode[%s]' % n, 'registry value', c))
    else:
        for c in X.STANDARD:
            if dx.DW_OP_name2opcode.get(X.OPS[c][0]) != c:
                fails.append(('DW_OP_name2opcode[%s]' % X.OPS[c][0], c, dx.DW_OP_name2opcode.get(X.OPS[c][0])))
    return fails, True, which


# (5) the operand layout of an operation does not depend on the DWARF version the structs were made for (version 2 is the DEFAULT of DWARFStructs)
def _ver_gen():
    for pi in range(len(PARAMS)):
        for code in sorted(X.OPS):
            for ver in (2, 3, 4):
                yield [pi, code, ver]


def _ver_check(desc):
    pi, code, ver = desc
    p = PARAMS[pi]
    ops = [X.representative(code, p), (0x96, []), X.representative(code, p)]
    fails, data, out = check_expr(ops, p, 0, ver)
    return fails, True, out, data + bytes([ver])


def spaces(tier, seed):
    quick = tier == 'quick'
    pp = [0, 7, 2, 5] if quick else list(range(8))      # LSB/32/4, MSB/64/8, LSB/64/4, MSB/32/8 touch every parameter value
    tp = [0, 7] if quick else list(range(8))
    return [
        BulkSpace('every-op-x-operand-classes', _single_part, 64, _replay, rule='every operation of the table (%d) x every boundary class of each operand (others fixed) x LEB128 padding {canonical, 3, 10 bytes} '
                  'x byte order x format x address size (all 8 corners)' % len(X.OPS)),
        BulkSpace('all-ordered-pairs', _pair_part_factory(pp), 64, _replay, rule='all %d^2 ordered pairs of operations with representative operands on parameter corners %r' % (len(X.OPS), pp)),
        BulkSpace('all-triples-subalphabet', _triple_part_factory(tp), 64, _replay, rule='all 24^3 triples over a sub-alphabet with one operation of every operand kind, parameter corners %r' % tp),
        BulkSpace('nesting-and-long', _nest_part, 32, _replay, rule='entry_value / GNU_entry_value nested to depth 1..3 around every inner pair over a 12-letter alphabet; the empty expression; 300-operation '
                  'programs and the program of all operations, on all 8 parameter corners'),
        ListSpace('structs-version-independence', _ver_gen, _ver_check, nparts=16, rule='every operation with representative operands (op, nop, op) parsed through structs made for DWARF version 2 (the default), 3 and 4 '
                  'x all 8 parameter corners: same operations, operands and offsets as the model'),
        ListSpace('names', _names_gen, _names_check, nparts=1, rule='opcode2name[name2opcode[n]] == n for every name except the range markers; every standard v2-v5 operation is named with its registry value'),
    ]
