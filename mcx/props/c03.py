"""C03 — symbol tables enumerate exactly; name and hash lookups are complete and sound.

E1 over a symbol-table image (table kind, count, entry size, name pool with duplicates /
empty / long / UTF-8 / hash-colliding names, st_shndx escapes with a companion index table,
SUNW syminfo) with SysV and GNU hash tables BUILT BY THE REFERENCE over the same symbols
(nbucket, chain order, symoffset, bloom size/shift), queried with every present name and a
computed set of absent names (bloom-passing, bucket-colliding, hash-colliding, bit-0 neighbour).
Plus a complete st_info x st_other grid.
"""
import io
import struct

from mcx import core, elfgen as eg
from mcx.core import Case, ChoiceSpace, ListSpace, guarded, Raised
from mcx.observe import plain
from mcx.ref import names as nm, hashes

ID = 'C03'
LEVEL = 'model_checking'
ASSUMPTIONS = ['hash tables are valid by construction (built by mcx/ref/hashes.py from the gABI / glibc dl_new_hash descriptions)',
               'names are valid UTF-8']
SEED = 0

POOL_BASE = ['main', 'printf', 'aB', 'b!', 'ab', 'bR', 'sym0', 'sym2', 'dup', 'dup', 'naïve_é€', 'L' * 70, 'xaB', '_start', 'data_start',
             'z', 'zz', 'zzz', 'foo', 'bar', 'baz', 'dup', 'qux', '__bss_start', 'end', '_edata', 'a', 'b', 'c', 'd', 'e', 'f', 'g', 'h',
             'i', 'j', 'k', 'l', 'm']


def _names(count, variant):
    """names[0] is the null symbol's (empty) name."""
    if variant == 'mixed':
        pool = POOL_BASE
    elif variant == 'empties':
        pool = ['', 'x', '', 'y', 'x', ''] + POOL_BASE
    elif variant == 'all_distinct':
        pool = ['n%d' % i for i in range(400)]
    elif variant == 'all_same':
        pool = ['same'] * 400
    else:
        raise AssertionError(variant)
    out = ['']
    i = 0
    while len(out) < count:
        nme = pool[i % len(pool)]
        if i >= len(pool) and variant in ('mixed', 'empties'):
            nme = '%s_%d' % (nme, i // len(pool)) if nme not in ('dup', '') else nme
        out.append(nme)
        i += 1
    return out[:count]


def _sym_fields(i, nme, cls, other_hi=True):
    mask = (1 << cls) - 1
    return dict(value=(0x401000 + 16 * i) & mask, size=(i * 3) & 0xffffffff, info=((1 if i % 3 else 2) << 4) | (i % 5 % 3 + (0 if i else 0)),
                other=((0, 1, 2, 3, 0x60, 0xe3) if other_hi else (0, 1, 2, 3, 0, 3))[i % 6] if i else 0, shndx=(1 if i else 0))


def exp_symbol_entry(f, name_off, s):
    return {'st_name': name_off, 'st_value': s['value'] & f.mask, 'st_size': s['size'] & (f.mask if f.cls == 64 else 0xffffffff),
            'st_info': (s['info'] >> 4, s['info'] & 15), 'st_other': (s['other'] >> 5, s['other'] & 7), 'st_shndx': s['shndx']}


def check_symbol(path, sym, f, name, name_off, s, fails):
    """sym: library Symbol; compares name and every entry field with the model."""
    if isinstance(sym, Raised) or sym is None:
        fails.append((path, 'symbol %r' % name, sym))
        return None
    e = guarded(lambda: plain(sym.entry))
    if isinstance(e, Raised):
        fails.append((path + '.entry', 'dict', e))
        return None
    x = exp_symbol_entry(f, name_off, s)
    if sym.name != name:
        fails.append((path + '.name', name, sym.name))
    for k in ('st_name', 'st_value', 'st_size'):
        if e.get(k) != x[k]:
            fails.append((path + '.' + k, x[k], e.get(k)))
    info = e.get('st_info') or {}
    for kind, key, code in (('st_bind', 'bind', x['st_info'][0]), ('st_type', 'type', x['st_info'][1])):
        r = nm.check(kind, '*', code, info.get(key))
        if r:
            fails.append((path + '.st_info.' + key, r[0], r[1]))
    oth = e.get('st_other') or {}
    r = nm.check('st_visibility', '*', x['st_other'][1], oth.get('visibility'))
    if r:
        fails.append((path + '.st_other.visibility', r[0], r[1]))
    r = nm.check('st_local', '*', x['st_other'][0], oth.get('local'))
    if r:
        fails.append((path + '.st_other.local', r[0], r[1]))
    r = nm.check('st_shndx', '*', x['st_shndx'], e.get('st_shndx'))
    if r:
        fails.append((path + '.st_shndx', r[0], r[1]))
    if set(e) != {'st_name', 'st_value', 'st_size', 'st_info', 'st_other', 'st_shndx'}:
        fails.append((path + '.keys', 'the 6 gABI fields', sorted(e)))
    for k in ('st_value', 'st_size'):
        g = guarded(lambda: sym[k])
        if g != e.get(k):
            fails.append((path + '[%r]' % k, e.get(k), g))
    return e


def _absent_queries(present, nbuckets, gnu):
    """Names not in `present`, engineered against the table parameters."""
    pres = set(present)
    h = hashes.gnu_hash if gnu else hashes.sysv_hash
    hs = {h(p): p for p in present}
    buckets = {h(p) % nbuckets for p in present}
    out = []
    want = {'bucket_collision': None, 'empty_bucket': None}
    for i in range(200):
        c = 'q%d' % i
        if c in pres:
            continue
        hv = h(c)
        if want['bucket_collision'] is None and hv % nbuckets in buckets and hv not in hs:
            want['bucket_collision'] = c
        if want['empty_bucket'] is None and hv % nbuckets not in buckets:
            want['empty_bucket'] = c
        if want['bucket_collision'] is not None and want['empty_bucket'] is not None:
            break
    out += [v for v in want.values() if v is not None]
    # full-hash collisions and bit-0 neighbours with present names (only when the partner is absent)
    for a, b in (('aB', 'b!'), ('b!', 'aB'), ('xaB', 'xb!'), ('ab', 'bR'), ('bR', 'ab'), ('sym0', 'sym1'), ('sym2', 'sym3'), ('main', 'maio'), ('z', 'y')):
        if a in pres and b not in pres:
            out.append(b)
    out += ['absent_plain', 'dup_', 'L' * 69, 'L' * 71, 'naïve_é', 'MAIN']
    if '' not in pres:
        out.append('')
    return [q for q in dict.fromkeys(out) if q not in pres]


def run_tables(ch):
    cls = ch.free('class', [64, 32])
    le = ch.free('data', [True, False])
    img = eg.Img(cls, le, seed=SEED)
    f = img.f
    kind = ch.pick('table_kind', ['dynsym', 'symtab', 'ldynsym'])
    count = ch.pick('count', [8, 1, 2, 40, 300])
    ent_extra = ch.pick('sh_entsize', [0, 8])
    variant = ch.pick('name_pool', ['mixed', 'empties', 'all_distinct', 'all_same'])
    shndx_probe = ch.pick('probe.st_shndx', [1, 0, 0xfff1, 0xfff2, 0xff00, 0xffff])
    val_probe = ch.pick('probe.st_value', [None, 0, 1, f.mask])
    size_probe = ch.pick('probe.st_size', [None, 0, 1, f.mask if cls == 64 else 0xffffffff, 99999, 100000, 250000, 999999, 1000000])
    strtab_lead = ch.pick('strtab.sharing', ['shared', 'unshared', 'suffix'])
    with_shndx_tab = ch.pick('symtab_shndx', [False, True]) or shndx_probe == 0xffff
    with_syminfo = ch.pick('syminfo', [False, True])
    hash_kind = ch.pick('hash', ['both', 'sysv', 'gnu', 'none'])
    nbucket = ch.pick('sysv.nbucket', [3, 1, 2, 'count', 17])
    chain_desc = ch.pick('sysv.chain_order', [False, True])
    g_nb = ch.pick('gnu.nbuckets', [3, 1, 2, 5])
    g_symoff = ch.pick('gnu.symoffset', [1, 2, 'middle', 'count'])
    g_bloom = ch.pick('gnu.bloom_size', [2, 1, 4])
    g_shift = ch.pick('gnu.bloom_shift', [6, 0, 5, 31])
    g_desc = ch.pick('gnu.bucket_groups', ['ascending', 'descending']) == 'descending'

    names = _names(count, variant)
    symoff = {'middle': max(1, count // 2), 'count': count}.get(g_symoff, g_symoff)
    symoff = min(symoff, count)
    if hash_kind in ('both', 'gnu') and kind != 'ldynsym':
        names = hashes.gnu_order(names, symoff, g_nb, g_desc)
    other_hi = ch.pick('st_other.high_bits', [False, True])      # bits above the visibility (processor-specific meaning)
    syms = [_sym_fields(i, n, cls, other_hi) for i, n in enumerate(names)]
    p = 1 if count > 1 else 0
    if count > 1:
        syms[p]['shndx'] = shndx_probe
        if val_probe is not None:
            syms[p]['value'] = val_probe
        if size_probe is not None:
            syms[p]['size'] = size_probe
    st = eg.StrTab()
    offs = []
    if strtab_lead == 'suffix':
        # tail sharing as linkers do: 'printf' can live inside 'xprintf'
        st.add('x_printf')
        st.add('the_main')
    for n in names:
        if strtab_lead == 'suffix' and n in ('printf', 'main'):
            base = st.offs[(b'x_printf' if n == 'printf' else b'the_main')]
            offs.append(base + (2 if n == 'printf' else 4))
        else:
            offs.append(st.add(n, share=(strtab_lead != 'unshared')))
    img.null()
    strsec = img.add(eg.Sec('.dynstr', 3, data=st.bytes(), flags=2))
    entsize = f.symsize + ent_extra
    body = b''.join(f.sym(offs[i], s['value'], s['size'], s['info'], s['other'], s['shndx']) + eg.filler(SEED + i, ent_extra) for i, s in enumerate(syms))
    tcode = {'dynsym': 11, 'symtab': 2, 'ldynsym': 0x6ffffff3}[kind]
    symsec = img.add(eg.Sec({'dynsym': '.dynsym', 'symtab': '.symtab', 'ldynsym': '.SUNW_ldynsym'}[kind], tcode, data=body, flags=2, link=strsec.index,
                            info=1, align=8, entsize=entsize))
    xsec = isec = hsec = gsec = None
    xidx = [(0x10000 + i if s['shndx'] == 0xffff else 0) for i, s in enumerate(syms)]
    if with_shndx_tab:
        xsec = img.add(eg.Sec('.symtab_shndx', 18, data=b''.join(f.word(v) for v in xidx), link=symsec.index, entsize=4, align=4))
    sinfo = [((0xffff, 0xfffe, 0xfffd, 0xfffc, i, 0)[i % 6], (i * 7) & 0xffff) for i in range(count)]
    if kind == 'ldynsym':
        hash_kind = 'none'      # hash and syminfo sections link to .symtab/.dynsym only
    if with_syminfo and kind != 'ldynsym':
        isec = img.add(eg.Sec('.SUNW_syminfo', 0x6ffffffc, data=b''.join(struct.pack(f.o + 'HH', a, b) for a, b in sinfo), link=symsec.index,
                              entsize=4, align=2, flags=2))
    nb = count if nbucket == 'count' else nbucket
    if hash_kind in ('both', 'sysv'):
        hsec = img.add(eg.Sec('.hash', 5, data=hashes.build_sysv(names, nb, le, chain_desc), link=symsec.index, entsize=4, align=8, flags=2))
    if hash_kind in ('both', 'gnu'):
        gsec = img.add(eg.Sec('.gnu.hash', 0x6ffffff6, data=hashes.build_gnu(names, symoff, g_nb, g_bloom, g_shift, cls, le), link=symsec.index,
                              align=8, flags=2))
    img.add_shstrtab()
    data = img.encode()

    # ---- observe
    from elftools.elf.elffile import ELFFile
    fails = []
    elf = guarded(ELFFile, io.BytesIO(data))
    if isinstance(elf, Raised):
        return Case([('ELFFile()', 'constructs', elf)], data, repr(elf))
    tab = guarded(elf.get_section, symsec.index)
    if isinstance(tab, Raised) or type(tab).__name__ != 'SymbolTableSection':
        return Case([('get_section(symtab)', 'SymbolTableSection', tab)], data, repr(tab))
    g = guarded(tab.num_symbols)
    if g != count:
        fails.append(('num_symbols()', count, g))
    it = guarded(lambda: list(tab.iter_symbols()))
    if isinstance(it, Raised) or len(it) != count:
        fails.append(('iter_symbols()', '%d symbols' % count, it if isinstance(it, Raised) else len(it)))
        it = None
    outc = []
    for i in range(count):
        sym = guarded(tab.get_symbol, i)
        e = check_symbol('symbols[%d]' % i, sym, f, names[i], offs[i], syms[i], fails)
        if it is not None and e is not None:
            if it[i].name != names[i] or guarded(lambda: plain(it[i].entry)) != e:
                fails.append(('iter_symbols()[%d]' % i, 'equal to get_symbol(%d)' % i, it[i].name))
        outc.append(e)
        if len(fails) > 8:
            break
    # lookups by name: every present name and some absent ones
    byname = {}
    for i, n in enumerate(names):
        byname.setdefault(n, []).append(i)
    for n in list(byname) + ['absent_name', 'MAIN', 'dup_']:
        idxs = byname.get(n)
        g = guarded(tab.get_symbol_by_name, n)
        if not idxs:
            if g is not None:
                fails.append(('get_symbol_by_name(%r)' % n, None, g))
            continue
        if isinstance(g, Raised) or g is None or len(g) != len(idxs):
            fails.append(('get_symbol_by_name(%r)' % n, '%d symbols' % len(idxs), g if isinstance(g, Raised) or g is None else len(g)))
            continue
        for sym, i in zip(g, idxs):
            if sym.name != n or guarded(lambda: plain(sym.entry)) != outc[i] if i < len(outc) else False:
                fails.append(('get_symbol_by_name(%r)' % n, 'symbols %r in order' % idxs, sym.name))
                break
    if xsec is not None:
        xs = guarded(elf.get_section, xsec.index)
        if type(xs).__name__ != 'SymbolTableIndexSection':
            fails.append(('class of SYMTAB_SHNDX', 'SymbolTableIndexSection', xs))
        else:
            for i in range(count):
                g = guarded(xs.get_section_index, i)
                if g != xidx[i]:
                    fails.append(('symtab_shndx.get_section_index(%d)' % i, xidx[i], g))
                    break
    if isec is not None:
        ss = guarded(elf.get_section, isec.index)
        if type(ss).__name__ != 'SUNWSyminfoTableSection':
            fails.append(('class of SUNW_syminfo', 'SUNWSyminfoTableSection', ss))
        else:
            g = guarded(ss.num_symbols)
            if g != count - 1:
                fails.append(('syminfo.num_symbols()', count - 1, g))
            lst = guarded(lambda: list(ss.iter_symbols()))
            if isinstance(lst, Raised) or len(lst) != count - 1:
                fails.append(('syminfo.iter_symbols()', '%d entries' % (count - 1), lst if isinstance(lst, Raised) else len(lst)))
            else:
                for j, sym in enumerate(lst):
                    i = j + 1
                    e = guarded(lambda: plain(sym.entry))
                    bad = isinstance(e, Raised) or sym.name != names[i] or e.get('si_flags') != sinfo[i][1] or nm.check('boundto', '*', sinfo[i][0], e.get('si_boundto'))
                    if bad:
                        fails.append(('syminfo[%d]' % i, (names[i], sinfo[i]), (sym.name, e)))
                        break
    # hash lookups
    nq = 0
    for sec, gnu, first in ((hsec, False, 1), (gsec, True, symoff)):
        if sec is None:
            continue
        hs = guarded(elf.get_section, sec.index)
        want_cls = 'GNUHashSection' if gnu else 'ELFHashSection'
        tag = 'gnu_hash' if gnu else 'sysv_hash'
        if type(hs).__name__ != want_cls:
            fails.append(('class of ' + tag, want_cls, hs))
            continue
        g = guarded(hs.get_number_of_symbols)
        if g != count:
            fails.append((tag + '.get_number_of_symbols()', count, g))
        hashed = {}
        for i in range(first, count):
            hashed.setdefault(names[i], []).append(i)
        queries = list(hashed) + [n for n in byname if n not in hashed] + _absent_queries(list(hashed), (g_nb if gnu else nb), gnu)
        for q in queries:
            nq += 1
            g = guarded(hs.get_symbol, q)
            if q in hashed:
                ok = (not isinstance(g, Raised)) and g is not None and g.name == q and any(
                    guarded(lambda: plain(g.entry)) == outc[i] for i in hashed[q] if i < len(outc))
                if not ok:
                    fails.append((tag + '.get_symbol(%r)' % q[:20], 'a symbol named %r (index in %r)' % (q[:20], hashed[q][:4]),
                                  g if isinstance(g, Raised) or g is None else (g.name[:20], plain(g.entry)['st_value'])))
            elif g is not None:
                fails.append((tag + '.get_symbol(%r)' % q[:20], None, g if isinstance(g, Raised) else g.name[:20]))
        # the static hash functions
        fn = guarded(lambda: hs.gnu_hash if gnu else hs.elf_hash)
        for n in list(byname)[:12]:
            ref = (hashes.gnu_hash if gnu else hashes.sysv_hash)(n)
            g = guarded(fn, n)
            if g != ref:
                fails.append((tag + ' function(%r)' % n[:20], ref, g))
                break
    return Case(fails, data, repr(outc[:6]) + repr(nq), nontrivial=count > 1,
                sample={'class': cls, 'le': le, 'kind': kind, 'count': count, 'names': names[:6], 'hash': hash_kind, 'hash_queries': nq, 'file_bytes': len(data)},
                checks=count + nq + 3)


# ---- complete st_info x st_other grid ---------------------------------------------------------

def _grid_gen():
    for cls in (64, 32):
        for le in (True, False):
            for field in ('st_info', 'st_other'):
                yield {'class': cls, 'le': le, 'field': field}


def _grid_check(desc):
    img = eg.Img(desc['class'], desc['le'], seed=SEED)
    f = img.f
    img.null()
    strsec = img.add(eg.Sec('.strtab', 3, data=b'\0s\0'))
    syms = []
    for v in range(256):
        s = dict(value=v, size=1, info=0x12, other=0, shndx=1)
        s['info' if desc['field'] == 'st_info' else 'other'] = v
        syms.append(s)
    body = b''.join(f.sym(1, s['value'], s['size'], s['info'], s['other'], s['shndx']) for s in syms)
    symsec = img.add(eg.Sec('.symtab', 2, data=body, link=strsec.index, info=256, entsize=f.symsize, align=8))
    img.add_shstrtab()
    data = img.encode()
    from elftools.elf.elffile import ELFFile
    fails = []
    elf = guarded(ELFFile, io.BytesIO(data))
    if isinstance(elf, Raised):
        return [('ELFFile()', 'constructs', elf)], True, repr(elf), data
    tab = elf.get_section(symsec.index)
    outs = []
    for v in range(256):
        e = check_symbol('%s=%#x' % (desc['field'], v), guarded(tab.get_symbol, v), f, 's', 1, syms[v], fails)
        outs.append(e)
        if len(fails) > 5:
            break
    return fails, True, repr(outs), data


def spaces(tier, seed):
    global SEED
    SEED = seed
    k = 2 if tier == 'quick' else 3
    return [
        ChoiceSpace('symbol-and-hash-tables', run_tables, k, rule='table kind x count {8,1,2,40,300} x entsize x name pool {mixed with duplicates/UTF-8/70-byte/SysV- and GNU-colliding pairs, '
                    'empty names, all distinct, all same} x probe st_shndx/st_value/st_size x string sharing {shared, unshared, suffix} x SYMTAB_SHNDX x SUNW_syminfo x hash {both,sysv,gnu,none} '
                    'x SysV nbucket {3,1,2,count,17} x chain order x GNU nbuckets {3,1,2,5} x symoffset {1,2,middle,count} x bloom size {2,1,4} x shift {6,0,5,31}; every symbol, every present '
                    'name and a computed absent set queried; non-trivial = more than the null symbol', deadline_s=(300 if tier == 'quick' else 3000)),
        ListSpace('st_info-st_other-grid', _grid_gen, _grid_check, nparts=8, rule='all 256 st_info values and all 256 st_other values x class x order'),
    ]
