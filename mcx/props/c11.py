"""C11 — the DWARF view is invariant under container encoding of the same debug data.

Complete product: payloads (synthesized v4 / v5 / mixed with .debug_types + the debug sections of
non-relocatable corpus files, extracted by an independent section reader) x container transforms
(identity, SHF_COMPRESSED + Chdr, legacy .zdebug, separate file behind .gnu_debuglink with right /
wrong CRC and every file-name length residue, supplementary file behind .gnu_debugaltlink /
.debug_sup, off-by-one framing) x zlib level x follow_links x stream loader present/absent.
Relational oracle: the full dump through transform T equals the dump through identity; presence
truth table; rejection types.
"""
import glob
import io
import os
import struct
import zlib

from mcx import core, elfgen as eg, elfwrap, payloads
from mcx.core import ListSpace, guarded, Raised
from mcx.minielf import Mini
from mcx.observe import plain
from mcx.props.c10 import die_obs, cfi_obs

ID = 'C11'
LEVEL = 'model_checking'
ASSUMPTIONS = ['corpus payloads that are relocatable objects are excluded (C08); the relocatable family rel_plain / rel_gabi is synthesized from the x86-64 payloads', 'linked files are served by an in-memory stream_loader',
               'corpus payloads are read from $VERIF_REPO/test/testfiles_for_* (data, not code under test); missing files are skipped and counted']
REPO = os.environ.get('VERIF_REPO', '/repo')


def full_dump(dw):
    out = {}
    cus = []
    for cu in dw.iter_CUs():
        lp = dw.line_program_for_CU(cu)
        rows = None
        if lp is not None:
            rows = ([None if e.state is None else sorted(vars(e.state).items()) for e in lp.get_entries()], repr(plain(lp.header)))
        cus.append((cu.cu_offset, plain(cu.header), [die_obs(d) for d in cu.iter_DIEs()], rows))
    out['units'] = cus
    out['types'] = [(tu.tu_offset, plain(tu.header), [die_obs(d) for d in tu.iter_DIEs()]) for tu in dw.iter_TUs()]
    out['cfi'] = cfi_obs(dw.CFI_entries()) if dw.has_CFI() else None
    out['eh'] = cfi_obs(dw.EH_CFI_entries()) if dw.has_EH_CFI() else None
    ar = dw.get_aranges()
    out['aranges'] = None if ar is None else [tuple(e) for e in ar.entries]
    pn = dw.get_pubnames()
    out['pubnames'] = None if pn is None else [(k, tuple(v)) for k, v in pn.items()]
    return repr(out)


# ---- payloads --------------------------------------------------------------------------------------------

_PAYLOADS = None


def corpus_payloads(limit=100000):
    out = []
    seen = set()
    for d in ('testfiles_for_unittests', 'testfiles_for_readelf', 'testfiles_for_dwarfdump'):
        for p in sorted(glob.glob(os.path.join(REPO, 'test', d, '*'))):
            if not os.path.isfile(p) or os.path.getsize(p) > limit or os.path.getsize(p) < 64:
                continue
            data = open(p, 'rb').read()
            if data[:4] != b'\x7fELF' or data[4] not in (1, 2) or data[5] not in (1, 2):
                continue
            try:
                m = Mini(data)
            except Exception:       # noqa: BLE001
                continue
            if m.eh['e_type'] == 1 or not m.shdrs:      # relocatable: C08's business
                continue
            strndx = m.eh['e_shstrndx']
            if strndx >= len(m.shdrs):
                continue
            sh = m.shdrs[strndx][1]
            strtab = data[sh['sh_offset']:sh['sh_offset'] + sh['sh_size']]
            secs = {}
            ok = True
            addrs = {}
            for base, h in m.shdrs:
                e = strtab.find(b'\0', h['sh_name'])
                name = strtab[h['sh_name']:e].decode('latin-1')
                if name.startswith('.debug_') and h['sh_type'] == 1:
                    if h['sh_flags'] & 0x800:
                        ok = False      # already compressed: not a plain payload
                    secs[name] = data[h['sh_offset']:h['sh_offset'] + h['sh_size']]
                elif name.startswith('.zdebug') or name in ('.gnu_debugaltlink', '.gnu_debuglink'):
                    ok = False      # already a transformed / linked container
            if not ok or '.debug_info' not in secs or '.debug_abbrev' not in secs or '.debug_sup' in secs:
                continue
            key = core.digest(b''.join(secs[k] for k in sorted(secs)))
            if key in seen:
                continue
            seen.add(key)
            out.append(('corpus:' + os.path.basename(p), secs, m.cls, m.le, m.eh['e_machine'], {}))
    return out


def all_payloads():
    global _PAYLOADS
    if _PAYLOADS is None:
        P = []
        for kind in ('v4', 'v5', 'mixed'):
            for cls, le, fmt in ((64, True, 32), (32, False, 64), (64, False, 32), (32, True, 32)):
                secs, meta = payloads.make(kind, le, fmt, cls // 8)
                secs = dict(secs)
                eh = secs.pop('.eh_frame', None)
                P.append(('synth:%s/%d/%s/%d' % (kind, cls, 'lsb' if le else 'msb', fmt), secs, cls, le, 62 if cls == 64 else 3, {}))
        P += corpus_payloads()
        _PAYLOADS = P
    return _PAYLOADS


def crc32(data):
    return zlib.crc32(data) & 0xffffffff


TRANSFORMS = ['identity', 'gabi', 'zdebug', 'debuglink', 'debuglink_badcrc', 'altlink', 'debug_sup', 'gabi_badsize', 'zdebug_badsize', 'rel_plain', 'rel_gabi', 'debuglink_altlink', 'debuglink_debugsup']
LINK_NAMES = [b'd.dbg', b'dd.dbg', b'ddd.dbg', b'dddd.dbg', b'x/deep/path/file.debug']


def build(payload, transform, level, namei=0):
    """-> (main image bytes, {filename: bytes} for the loader)"""
    name, secs, cls, le, machine, _ = payload
    f = eg.Fmt(cls, le)
    files = {}
    if transform == 'identity':
        data, _ = elfwrap.wrap(secs, cls, le, machine=machine)
    elif transform == 'gabi':
        data, _ = elfwrap.wrap(secs, cls, le, machine=machine, compress='gabi', level=level)
    elif transform == 'zdebug':
        data, _ = elfwrap.wrap(secs, cls, le, machine=machine, zdebug=True, level=level)
    elif transform in ('debuglink', 'debuglink_badcrc'):
        dbg, _ = elfwrap.wrap(secs, cls, le, machine=machine, seed=5)
        fn = LINK_NAMES[namei % len(LINK_NAMES)]
        crc = crc32(dbg) ^ (1 if transform == 'debuglink_badcrc' else 0)
        link = fn + b'\0' + b'\0' * ((-(len(fn) + 1)) % 4) + f.word(crc)
        data, _ = elfwrap.wrap({}, cls, le, machine=machine, extra=[eg.Sec('.gnu_debuglink', 1, data=link, align=4, file_align=4)])
        files[fn] = dbg
    elif transform in ('debuglink_altlink', 'debuglink_debugsup'):
        # the usual dwz debug-package chain: stripped file -> (checksum-verified link) -> debug file -> (alt link / .debug_sup) -> common file
        sup_secs, _m = payloads.make('v4', le, 32, cls // 8)
        sup, _ = elfwrap.wrap({k: v for k, v in sup_secs.items() if k in ('.debug_info', '.debug_abbrev', '.debug_str')}, cls, le, machine=machine, seed=9)
        fn2 = b'common.dwz'
        if transform == 'debuglink_altlink':
            extra = [eg.Sec('.gnu_debugaltlink', 1, data=fn2 + b'\0' + bytes(range(20)))]
        else:
            extra = [eg.Sec('.debug_sup', 1, data=struct.pack(f.o + 'hB', 5, 0) + fn2 + b'\0' + b'\x14' + bytes(range(20)))]
        dbg, _ = elfwrap.wrap(secs, cls, le, machine=machine, seed=5, extra=extra)
        fn = LINK_NAMES[namei % len(LINK_NAMES)]
        link = fn + b'\0' + b'\0' * ((-(len(fn) + 1)) % 4) + f.word(crc32(dbg))
        data, _ = elfwrap.wrap({}, cls, le, machine=machine, extra=[eg.Sec('.gnu_debuglink', 1, data=link, align=4, file_align=4)])
        files[fn] = dbg
        files[fn2] = sup
    elif transform in ('altlink', 'debug_sup'):
        sup_secs, _m = payloads.make('v4', le, 32, cls // 8)
        sup, _ = elfwrap.wrap({k: v for k, v in sup_secs.items() if k in ('.debug_info', '.debug_abbrev', '.debug_str')}, cls, le, machine=machine, seed=9)
        fn = LINK_NAMES[namei % len(LINK_NAMES)]
        if transform == 'altlink':
            extra = [eg.Sec('.gnu_debugaltlink', 1, data=fn + b'\0' + bytes(range(20)))]
        else:
            extra = [eg.Sec('.debug_sup', 1, data=struct.pack(f.o + 'hB', 5, 0) + fn + b'\0' + b'\x14' + bytes(range(20)))]
        data, _ = elfwrap.wrap(secs, cls, le, machine=machine, extra=extra)
        files[fn] = sup
    elif transform in ('rel_plain', 'rel_gabi'):
        # the same debug data as a relocatable object: 4-byte fields all over .debug_info are zeroed in the file and restored by R_X86_64_32 relocations
        # (S + A = the original value), so the logical content is unchanged; stored plainly or compressed (r_offset then indexes the inflated data)
        info = bytearray(secs['.debug_info'])
        rel = b''
        for pos in range(12, len(info) - 4, 16):
            val = int.from_bytes(info[pos:pos + 4], 'little')
            info[pos:pos + 4] = b'\0\0\0\0'
            rel += f.rela(pos, f.r_info(1, 10), val - 0x401008)       # S = value of symbol 1 of elfwrap's table
        rsecs = dict(secs)
        rsecs['.debug_info'] = bytes(info)
        idx = 4 + list(rsecs).index('.debug_info')        # null, .text, .strtab, .symtab, then the payload sections in order
        extra = [eg.Sec('.rela.debug_info', 4, data=rel, link=3, info=idx, entsize=f.relasize, align=8, flags=0x40)]
        data, _ = elfwrap.wrap(rsecs, cls, le, machine=machine, etype=1, with_symbols=True, extra=extra, compress=('gabi' if transform == 'rel_gabi' else None), level=level)
    elif transform == 'gabi_badsize':
        img = eg.Img(cls, le, machine=machine)
        img.null()
        for n, d in secs.items():
            raw = f.chdr(1, len(d) + (1 if n == '.debug_info' else 0), 1) + zlib.compress(d, level) if n.startswith('.debug_') else d
            img.add(eg.Sec(n, 1, data=raw, flags=(0x800 if n.startswith('.debug_') else 0), file_align=1))
        img.add_shstrtab()
        data = img.encode()
    elif transform == 'zdebug_badsize':
        img = eg.Img(cls, le, machine=machine)
        img.null()
        for n, d in secs.items():
            if n.startswith('.debug_'):
                raw = b'ZLIB' + struct.pack('>Q', len(d) + (1 if n == '.debug_info' else 0)) + zlib.compress(d, level)
                img.add(eg.Sec('.zdebug_' + n[7:], 1, data=raw, file_align=1))
        img.add_shstrtab()
        data = img.encode()
    return data, files


_ID_DUMP = {}


def identity_dump(pi):
    if pi not in _ID_DUMP:
        from elftools.elf.elffile import ELFFile
        data, _ = build(all_payloads()[pi], 'identity', 6)
        elf = ELFFile(io.BytesIO(data))
        _ID_DUMP[pi] = guarded(lambda: full_dump(elf.get_dwarf_info()))
    return _ID_DUMP[pi]


def _gen_factory(tier):
    def gen():
        P = all_payloads()
        levels = (6, 0, 1, 9)
        for pi, p in enumerate(P):
            for t in TRANSFORMS:
                if t.startswith('rel_') and not (p[2] == 64 and p[3] and p[4] == 62 and len(p[1]['.debug_info']) >= 32):
                    continue        # the relocatable family: x86-64 little-endian payloads (RELA)
                lv = levels if t in ('gabi', 'zdebug', 'rel_gabi') else (6,)
                for level in lv:
                    for follow in (True, False):
                        for loader in (True, False):
                            names = range(len(LINK_NAMES)) if (t in ('debuglink',) and p[0].startswith('synth:v4/64')) else (pi % len(LINK_NAMES),)
                            for ni in names:
                                yield {'payload': p[0], 'pi': pi, 'transform': t, 'level': level, 'follow_links': follow, 'loader': loader, 'name': ni}
        for p in ('only_eh_frame', 'only_zdebug_info', 'neither', 'plain_info'):
            for cls, le in ((64, True), (32, False)):
                yield {'presence': p, 'class': cls, 'le': le}
        for link in ('altlink', 'debug_sup'):
            for cls, le, fmt in ((64, True, 32), (32, False, 64)):
                for follow in (True, False):
                    for loader in (True, False):
                        yield {'altforms': link, 'class': cls, 'le': le, 'fmt': fmt, 'follow_links': follow, 'loader': loader}
    return gen


def _check(desc):
    from elftools.elf.elffile import ELFFile
    if 'presence' in desc:
        return _presence(desc)
    if 'altforms' in desc:
        return _altforms(desc)
    p = all_payloads()[desc['pi']]
    if p[0] != desc['payload']:
        raise core.HarnessError('payload list changed: %s vs %s' % (p[0], desc['payload']))
    t = desc['transform']
    data, files = build(p, t, desc['level'], desc['name'])
    loads = []

    def loader(fn):
        loads.append(fn)
        return io.BytesIO(files[bytes(fn)])
    fails = []
    elf = guarded(lambda: ELFFile(io.BytesIO(data), stream_loader=(loader if desc['loader'] else None)))
    if isinstance(elf, Raised):
        return [('ELFFile()', 'constructs', elf)], True, repr(elf), data
    ident = identity_dump(desc['pi'])
    follow = desc['follow_links']
    stripped = t in ('debuglink', 'debuglink_badcrc', 'debuglink_altlink', 'debuglink_debugsup')
    has_strict = guarded(elf.has_dwarf_info, True)
    if has_strict is not (not stripped):
        fails.append(('has_dwarf_info(strict=True)', not stripped, has_strict))
    if stripped:
        hl = guarded(elf.has_dwarf_link)
        gl = guarded(lambda: (lambda l: (l.filename, l.checksum))(elf.get_dwarf_link()))
        fn = LINK_NAMES[desc['name'] % len(LINK_NAMES)]
        exp_crc = crc32(files[fn]) ^ (1 if t == 'debuglink_badcrc' else 0)
        if hl is not True:
            fails.append(('has_dwarf_link()', True, hl))
        if gl != (fn, exp_crc):
            fails.append(('get_dwarf_link()', (fn, exp_crc), gl))
    elif guarded(elf.has_dwarf_link) is not False:
        fails.append(('has_dwarf_link()', False, guarded(elf.has_dwarf_link)))
    got = guarded(lambda: elf.get_dwarf_info(follow_links=follow))
    outc = None
    if t == 'gabi_badsize':
        if not (isinstance(got, Raised) and got.isa('ELFCompressionError')):
            fails.append(('get_dwarf_info()', 'raises ELFCompressionError', got))
    elif t == 'zdebug_badsize':
        if not (isinstance(got, Raised) and (got.isa('AssertionError') or got.isa('ELFError'))):
            fails.append(('get_dwarf_info()', 'raises AssertionError (or ELFError)', got))
    elif t == 'debuglink_badcrc' and follow and desc['loader']:
        if not (isinstance(got, Raised) and got.isa('ELFError')):
            fails.append(('get_dwarf_info()', 'raises ELFError (checksum mismatch)', got))
    elif stripped and not (follow and desc['loader']):
        # the link is not followed: the main file has no debug info of its own
        if isinstance(got, Raised):
            fails.append(('get_dwarf_info() without following the link', 'a DWARFInfo without debug info', got))
        else:
            g = guarded(lambda: got.has_debug_info)
            if g is not False:
                fails.append(('has_debug_info', False, g))
    else:
        if isinstance(got, Raised):
            fails.append(('get_dwarf_info()', 'DWARFInfo', got))
        else:
            d = guarded(full_dump, got)
            outc = d
            if d != ident:
                fails.append(('full dump vs identity', 'equal', _first_diff(ident, d)))
            if t in ('altlink', 'debug_sup', 'debuglink_altlink', 'debuglink_debugsup'):
                sup = got.supplementary_dwarfinfo
                want_sup = follow and desc['loader']
                if (sup is not None) != want_sup:
                    fails.append(('supplementary_dwarfinfo', 'loaded' if want_sup else None, sup))
                elif sup is not None:
                    g = guarded(lambda: [cu.cu_offset for cu in sup.iter_CUs()])
                    if g != [0]:
                        fails.append(('supplementary units', [0], g))
                if not want_sup and loads and not stripped:
                    fails.append(('stream_loader calls', [], loads))
    if t in ('altlink', 'debug_sup', 'debuglink', 'debuglink_altlink', 'debuglink_debugsup') and desc['loader']:
        # the answer for one follow_links value must not depend on an earlier call with the other value on the SAME file object:
        # second call with the flag flipped vs the first call of a fresh object
        def summary(dw):
            if isinstance(dw, Raised):
                return dw
            return (guarded(lambda: dw.has_debug_info), dw.supplementary_dwarfinfo is not None, core.digest(repr(guarded(full_dump, dw))))
        second = summary(guarded(lambda: elf.get_dwarf_info(follow_links=not follow)))
        fresh_elf = ELFFile(io.BytesIO(data), stream_loader=loader)
        fresh = summary(guarded(lambda: fresh_elf.get_dwarf_info(follow_links=not follow)))
        if second != fresh:
            fails.append(('get_dwarf_info(follow_links=%s) after get_dwarf_info(follow_links=%s) on the same ELFFile' % (not follow, follow),
                          'as on a fresh ELFFile: (has_debug_info, supplementary loaded, dump digest) = %r' % (fresh,), second))
    if t == 'debuglink' and desc['loader'] and follow and not fails:
        # the checksum is verified every time the link is followed: the linked file may have been replaced since the last call
        fn = LINK_NAMES[desc['name'] % len(LINK_NAMES)]
        good = files[fn]
        files[fn] = good[:-1] + bytes([good[-1] ^ 0x5a])
        again = guarded(lambda: elf.get_dwarf_info(follow_links=True))
        if not (isinstance(again, Raised) and again.isa('ELFError')):
            fails.append(('get_dwarf_info() again after the linked file changed (checksum no longer matches)', 'raises ELFError', again if isinstance(again, Raised) else 'returned'))
        files[fn] = good
        third = guarded(lambda: full_dump(elf.get_dwarf_info(follow_links=True)))
        if third != ident:
            fails.append(('get_dwarf_info() once the right linked file is back', 'the identity dump', _first_diff(ident, third)))
    return fails, True, (t, core.digest(outc if isinstance(outc, str) else repr(outc))), data


def _first_diff(a, b):
    if isinstance(b, Raised):
        return b
    if not isinstance(a, str) or not isinstance(b, str):
        return repr(b)[:200]
    i = next((k for k in range(min(len(a), len(b))) if a[k] != b[k]), min(len(a), len(b)))
    return 'differs at char %d: ...%s... vs ...%s...' % (i, a[max(0, i - 40):i + 40], b[max(0, i - 40):i + 40])


def _altforms(desc):
    """A main file whose DIEs use the supplementary-file forms; the supplementary file carries the strings / DIEs."""
    from elftools.elf.elffile import ELFFile
    from mcx import dwarfgen as dg
    from mcx.dwarfgen import F, TAG, AT, Abbrev, Die, Unit, DP, null
    cls, le, fmt = desc['class'], desc['le'], desc['fmt']
    f = eg.Fmt(cls, le)
    sup_secs, sm = payloads.make('v4', le, 32, cls // 8)
    sup_str = sup_secs['.debug_str']
    soff = sup_str.index(b'global')
    tgt = sm['labels']['int'].offset
    sup, _ = elfwrap.wrap({k: v for k, v in sup_secs.items() if k in ('.debug_info', '.debug_abbrev', '.debug_str')}, cls, le, seed=9)
    v5 = desc['altforms'] == 'debug_sup'
    dp = DP(le, fmt, cls // 8, 5 if v5 else 4)
    a0 = Abbrev(1, TAG['compile_unit'], True, [(AT['name'], F['string'], None)])
    a1 = Abbrev(2, TAG['variable'], False, [(AT['name'], F['strp_sup'] if v5 else F['GNU_strp_alt'], None), (AT['type'], F['ref_sup4'] if v5 else F['GNU_ref_alt'], None)])
    u = Unit(dp, Die(a0, [b'main.c'], [Die(a1, [soff, tgt], label='v'), null()], label='r'))
    secs = dg.Assembly([u], le=le).assemble()
    fn = b'sup.file'
    if v5:
        extra = [eg.Sec('.debug_sup', 1, data=struct.pack(f.o + 'hB', 5, 0) + fn + b'\0' + b'\x14' + bytes(range(20)))]
    else:
        extra = [eg.Sec('.gnu_debugaltlink', 1, data=fn + b'\0' + bytes(range(20)))]
    data, _ = elfwrap.wrap({k: secs[k] for k in ('.debug_info', '.debug_abbrev')}, cls, le, extra=extra)
    elf = ELFFile(io.BytesIO(data), stream_loader=((lambda n: io.BytesIO(sup)) if desc['loader'] else None))
    fails = []
    dw = guarded(lambda: elf.get_dwarf_info(follow_links=desc['follow_links']))
    if isinstance(dw, Raised):
        return [('get_dwarf_info()', 'DWARFInfo', dw)], True, repr(dw), data
    die = [d for cu in dw.iter_CUs() for d in cu.iter_DIEs() if d.tag == 'DW_TAG_variable'][0]
    linked = desc['follow_links'] and desc['loader']
    name = die.attributes['DW_AT_name']
    if name.raw_value != soff or name.value != (b'global' if linked else soff):
        fails.append(('DW_AT_name (raw, value)', (soff, b'global' if linked else soff), (name.raw_value, name.value)))
    g = guarded(lambda: (lambda d: (d.offset, d.tag))(die.get_DIE_from_attribute('DW_AT_type')))
    if linked:
        if g != (tgt, 'DW_TAG_base_type'):
            fails.append(('get_DIE_from_attribute(DW_AT_type) through the supplementary file', (tgt, 'DW_TAG_base_type'), g))
    elif not isinstance(g, Raised):
        fails.append(('get_DIE_from_attribute(DW_AT_type) without supplementary file', 'raises', g))
    return fails, True, (linked, repr(name.value)), data


def _presence(desc):
    from elftools.elf.elffile import ELFFile
    cls, le = desc['class'], desc['le']
    secs, meta = payloads.make('m1', le, 32, cls // 8)
    p = desc['presence']
    if p == 'only_eh_frame':
        data, _ = elfwrap.wrap({'.eh_frame': secs['.eh_frame']}, cls, le, addresses=meta['addresses'])
        exp = (False, True)
    elif p == 'only_zdebug_info':
        data, _ = elfwrap.wrap({'.debug_info': secs['.debug_info']}, cls, le, zdebug=True)
        exp = (True, True)
    elif p == 'neither':
        data, _ = elfwrap.wrap({}, cls, le)
        exp = (False, False)
    else:
        data, _ = elfwrap.wrap({'.debug_info': secs['.debug_info'], '.debug_abbrev': secs['.debug_abbrev']}, cls, le)
        exp = (True, True)
    elf = ELFFile(io.BytesIO(data))
    fails = []
    g = (guarded(elf.has_dwarf_info, True), guarded(elf.has_dwarf_info, False))
    if g != exp:
        fails.append(('has_dwarf_info(strict), has_dwarf_info()', exp, g))
    g2 = guarded(elf.has_dwarf_info)
    if g2 != exp[1]:
        fails.append(('has_dwarf_info() default is non-strict', exp[1], g2))
    if p == 'only_eh_frame':
        g3 = guarded(lambda: [type(e).__name__ for e in elf.get_dwarf_info().EH_CFI_entries()])
        if g3 != ['CIE', 'FDE', 'ZERO']:
            fails.append(('EH_CFI_entries() of an .eh_frame-only file', ['CIE', 'FDE', 'ZERO'], g3))
    return fails, True, g, data


def spaces(tier, seed):
    return [ListSpace('container-transforms', _gen_factory(tier), _check, nparts=64,
                      rule='payloads (12 synthesized: v4/v5/mixed x 4 class/order/format corners; debug sections of every non-relocatable corpus file <= 100 KB%s) x transforms {identity, gABI compressed, '
                           '.zdebug, .gnu_debuglink right/wrong CRC (5 file-name lengths covering every residue mod 4), .gnu_debugaltlink, .debug_sup, off-by-one gABI / .zdebug framing} x zlib level %s '
                           'x follow_links x loader present/absent; presence truth table (only .eh_frame, only .zdebug_info, neither, plain)' % (
                               ('; every second one in quick', '{6,0}') if tier == 'quick' else ('', '{6,0,1,9}')))]
