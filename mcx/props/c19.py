"""C19 — opening arbitrary bytes fails only with ELFError; header enumeration terminates.

Fault enumeration (E1 in fault mode): for each seed image (four synthesized kitchen-sink images
+ vendored corpus files <= 4 KiB) EVERY truncation length, EVERY substitution of the first 64
bytes with {00, ff, +1, ^80}, EVERY named header/record field set to each of 7 fault values,
ALL PAIRS of field faults inside the file header and between the file header and section 0 / the
name-table section header; plus every byte string of length <= 2 and every (class, data) pair
after the magic.  Oracles: construction returns or raises ELFError (sub)class; the fixed battery
terminates within a deterministic work bound measured on a metering stream.
"""
import glob
import io
import os
import resource
import signal
import struct

from mcx import core, elfgen as eg
from mcx.core import BulkSpace, BulkResult, guarded, Raised
from mcx.minielf import Mini
from mcx.ref import hashes

ID = 'C19'
LEVEL = 'fault_enumeration'
ASSUMPTIONS = ['time is decided as a deterministic work bound on a metering stream (operations <= 64*len + 4096, bytes delivered <= 64*len + 65536), not in seconds',
               'memory is decided as peak RSS growth of the worker (<= 256 MiB above baseline per case); a 5 s alarm per case is only a backstop and is itself reported',
               'the battery is exactly the property\'s list: headers, sections (+names), segments, symbol counts, dynamic tags, notes']
ROOT = os.path.dirname(os.path.dirname(os.path.dirname(os.path.abspath(__file__))))
SEED = 0


class WorkLimit(BaseException):
    pass


class WallBackstop(BaseException):
    pass


class MeterStream:
    """A seekable read-only stream over bytes that counts the work asked of it."""

    def __init__(self, data, max_ops, max_bytes):
        self._d = data
        self._p = 0
        self.ops = 0
        self.delivered = 0
        self.max_req = 0
        self._max_ops = max_ops
        self._max_bytes = max_bytes

    def _tick(self):
        self.ops += 1
        if self.ops > self._max_ops or self.delivered > self._max_bytes:
            raise WorkLimit('ops=%d delivered=%d' % (self.ops, self.delivered))

    def seek(self, pos, whence=0):
        self._tick()
        if whence == 0:
            np = pos
        elif whence == 1:
            np = self._p + pos
        else:
            np = len(self._d) + pos
        if np < 0:
            raise ValueError('negative seek value %r' % np)
        self._p = np
        return np

    def tell(self):
        self._tick()
        return self._p

    def read(self, n=-1):
        self._tick()
        if n is None or n < 0:
            n = len(self._d)
        if n > self.max_req:
            self.max_req = n
        r = self._d[self._p:self._p + n]
        self._p += len(r)
        self.delivered += len(r)
        return r

    def close(self):
        pass


def battery(elf):
    """The property's fixed enumeration battery.  Any exception ends it (that is fine)."""
    n = 0
    elf.header
    for sec in elf.iter_sections():
        sec.name
        sec.header
        n += 1
        tn = type(sec).__name__
        if tn == 'SymbolTableSection':
            sec.num_symbols()
        elif tn == 'DynamicSection':
            for t in sec.iter_tags():
                n += 1
        elif tn == 'NoteSection':
            for note in sec.iter_notes():
                n += 1
        elif tn in ('GNUHashSection', 'ELFHashSection'):
            sec.get_number_of_symbols()         # the symbol count recovered from the hash table
        elif tn == 'GNUVerSymSection':
            sec.num_symbols()
    for seg in elf.iter_segments():
        seg.header
        n += 1
        tn = type(seg).__name__
        if tn == 'DynamicSegment':
            for t in seg.iter_tags():
                n += 1
            seg.num_symbols()                   # symbol count through DT_HASH / DT_GNU_HASH
        elif tn == 'NoteSegment':
            for note in seg.iter_notes():
                n += 1
    return n


def _alarm(signum, frame):
    raise WallBackstop()


def examine(data):
    """-> (construct_outcome, battery_outcome, violation or None)"""
    from elftools.elf.elffile import ELFFile
    from elftools.common.exceptions import ELFError
    L = len(data)
    ms = MeterStream(data, 64 * L + 4096, 64 * L + 65536)
    rss0 = resource.getrusage(resource.RUSAGE_SELF).ru_maxrss
    signal.setitimer(signal.ITIMER_REAL, 5.0)
    try:
        try:
            elf = ELFFile(ms)
        except ELFError as e:
            return ('raises ' + type(e).__name__, None, None)
        except WorkLimit as e:
            return ('worklimit', None, ('construction exceeds the work bound', '<= %d stream operations' % (64 * L + 4096), str(e)))
        except WallBackstop:
            return ('wall', None, ('construction wall-clock backstop', 'terminates', 'still running after 5 s'))
        except Exception as e:      # noqa: BLE001
            r = Raised(e)
            return ('raises ' + r.type, None, ('ELFFile() exception type', 'ELFError (or success)', r))
        try:
            n = battery(elf)
            bo = 'returns'
        except WorkLimit as e:
            return ('ok', 'worklimit', ('battery exceeds the work bound', '<= %d stream operations / %d bytes' % (64 * L + 4096, 64 * L + 65536), str(e)))
        except WallBackstop:
            return ('ok', 'wall', ('battery wall-clock backstop', 'terminates', 'still running after 5 s'))
        except RecursionError as e:
            return ('ok', 'recursion', ('battery recursion', 'bounded', 'RecursionError'))
        except MemoryError:
            bo = 'raises MemoryError'
        except Exception as e:      # noqa: BLE001 - finishing by raising is fine for the battery
            bo = 'raises ' + type(e).__name__
        rss1 = resource.getrusage(resource.RUSAGE_SELF).ru_maxrss
        if (rss1 - rss0) * 1024 > 64 * L + (256 << 20):
            return ('ok', bo, ('battery peak memory', '<= 64*len + 256 MiB', '%d KiB growth' % (rss1 - rss0)))
        return ('ok', bo, None)
    finally:
        signal.setitimer(signal.ITIMER_REAL, 0)


# ---- seeds -----------------------------------------------------------------------------------------

def kitchen_sink(cls, le):
    img = eg.Img(cls, le, machine=62 if cls == 64 else 3, etype=3, seed=SEED)
    f = img.f
    o = f.o
    img.null()
    names = hashes.gnu_order(['', 'printf', 'aB', 'b!', 'main', 'exit'], 1, 2)
    st = eg.StrTab()
    offs = [st.add(n) for n in names]
    lib = st.add('libc.so.6')
    ver = st.add('GLIBC_2.2.5')
    interp = img.add(eg.Sec('.interp', 1, data=b'/lib/ld.so\0', flags=2, addr=0x400200))
    note = img.add(eg.Sec('.note.gnu', 7, data=struct.pack(o + 'III', 4, 20, 3) + b'GNU\0' + bytes(range(20)) + struct.pack(o + 'III', 4, 16, 1) + b'GNU\0'
                          + struct.pack(o + 'IIII', 0, 3, 2, 0), flags=2, addr=0x400240, align=4, file_align=4))
    hsec = img.add(eg.Sec('.hash', 5, data=hashes.build_sysv(names, 3, le), flags=2, addr=0x400300, entsize=4, align=8))
    gsec = img.add(eg.Sec('.gnu.hash', 0x6ffffff6, data=hashes.build_gnu(names, 1, 2, 1, 6, cls, le), flags=2, addr=0x400380, align=8))
    dynsym = img.add(eg.Sec('.dynsym', 11, data=b''.join(f.sym(offs[i], 0x401000 + i, i, 0x12 if i else 0, 0, 7 if i else 0) for i in range(len(names))),
                            flags=2, addr=0x400400, info=1, entsize=f.symsize, align=8))
    dynstr = img.add(eg.Sec('.dynstr', 3, data=st.bytes(), flags=2, addr=0x400500))
    dynsym.link = dynstr.index
    hsec.link = gsec.link = dynsym.index
    versym = img.add(eg.Sec('.gnu.version', 0x6fffffff, data=struct.pack(o + '6H', 0, 2, 2, 1, 1, 2), flags=2, addr=0x400580, link=dynsym.index, entsize=2, align=2))
    verneed = img.add(eg.Sec('.gnu.version_r', 0x6ffffffe, data=struct.pack(o + 'HHIII', 1, 1, lib, 16, 0) + struct.pack(o + 'IHHII', 0x09691a75, 0, 2, ver, 0),
                             flags=2, addr=0x4005a0, link=dynstr.index, info=1, align=4, file_align=4))
    rela = img.add(eg.Sec('.rela.dyn', 4, data=f.rela(0x403000, f.r_info(1, 6), 0) + f.rela(0x403008, f.r_info(2, 7), 8), flags=2, addr=0x400600,
                          link=dynsym.index, entsize=f.relasize, align=8))
    text = img.add(eg.Sec('.text', 1, data=eg.filler(SEED + 9, 64), flags=6, addr=0x401000, align=16))
    tags = [(1, lib), (4, 0x400300), (0x6ffffef5, 0x400380), (5, 0x400500), (6, 0x400400), (10, len(st.bytes())), (11, f.symsize), (7, 0x400600),
            (8, 2 * f.relasize), (9, f.relasize), (0x6ffffffe, 0x4005a0), (0x6fffffff, 1), (0x6ffffff0, 0x400580), (0, 0)]
    dyn = img.add(eg.Sec('.dynamic', 6, data=b''.join(f.dyn(t, v) for t, v in tags), flags=3, addr=0x402000, link=dynstr.index, entsize=f.dynsize, align=8))
    img.add(eg.Sec('.bss', 8, flags=3, addr=0x403000, size=0x100, align=32))
    symstr = img.add(eg.Sec('.strtab', 3, data=b'\0local\0main\0'))
    img.add(eg.Sec('.symtab', 2, data=f.sym(0, 0, 0, 0, 0, 0) + f.sym(1, 0x401000, 4, 0x02, 0, 10) + f.sym(7, 0x401010, 8, 0x12, 0, 10), link=symstr.index,
                   info=2, entsize=f.symsize, align=8))
    img.add_shstrtab()
    # sh_addr == offset + 0x400000 is not required by the library; segments reference the sections' real offsets
    img.seg(eg.Seg(6, 4, f.ehsize, 0x400000 + f.ehsize, None, 5 * f.phsize, 5 * f.phsize, 8))
    img.seg(eg.Seg(3, 4, of=interp))
    img.seg(eg.Seg(1, 5, 0, 0x400000, None, 0, 0, 0x1000))
    img.seg(eg.Seg(2, 6, of=dyn))
    img.seg(eg.Seg(4, 4, of=note, align=4))
    img.layout()
    img.segs[2].filesz = img.segs[2].memsz = img.total
    # the PT_LOAD maps the file at 0x400000: make every table address (and the dynamic pointers to them) agree with it, so that the
    # dynamic segment finds its tables (symbol count through DT_HASH / DT_GNU_HASH) in the unfaulted seed
    for s_ in (hsec, gsec, dynsym, dynstr, versym, verneed, rela):
        s_.addr = 0x400000 + s_.offset
    tags = [(1, lib), (4, hsec.addr), (0x6ffffef5, gsec.addr), (5, dynstr.addr), (6, dynsym.addr), (10, len(st.bytes())), (11, f.symsize), (7, rela.addr),
            (8, 2 * f.relasize), (9, f.relasize), (0x6ffffffe, verneed.addr), (0x6fffffff, 1), (0x6ffffff0, versym.addr), (0, 0)]
    dyn.data = b''.join(f.dyn(t, v) for t, v in tags)
    return img.encode()


_SEEDS = None


def seeds(tier):
    global _SEEDS
    if _SEEDS is None:
        s = []
        for cls in (64, 32):
            for le in (True, False):
                s.append(('synth-%d-%s' % (cls, 'lsb' if le else 'msb'), kitchen_sink(cls, le)))
        for p in sorted(glob.glob(os.path.join(ROOT, 'seeds', '*'))):
            d = open(p, 'rb').read()
            if d[:4] == b'\x7fELF' and d[4] in (1, 2) and d[5] in (1, 2):
                s.append((os.path.basename(p), d))
        _SEEDS = s
    if tier == 'quick':
        return [x for x in _SEEDS if x[0].startswith('synth') or len(x[1]) <= 2048]
    return _SEEDS


def fault_values(cur, width, flen):
    m = (1 << (8 * width)) - 1
    vals = [0, 1, m, 1 << (8 * width - 1), (cur + 1) & m, flen & m, (flen + 1) & m]
    out = []
    for v in vals:
        if v != cur and v not in out:
            out.append(v)
    return out


def put(data, off, width, val, le):
    b = bytearray(data)
    b[off:off + width] = val.to_bytes(width, 'little' if le else 'big')
    return bytes(b)


def gen_faults(name, data, klass):
    """Yield (descriptor, mutated bytes) for one fault class of one seed."""
    L = len(data)
    if klass == 'truncate':
        for n in range(L + 1):
            yield {'seed': name, 'fault': 'truncate', 'len': n}, data[:n]
    elif klass == 'bytesub':
        for i in range(min(64, L)):
            for how in ('00', 'ff', '+1', '^80'):
                v = {'00': 0, 'ff': 0xff, '+1': (data[i] + 1) & 0xff, '^80': data[i] ^ 0x80}[how]
                if v != data[i]:
                    b = bytearray(data)
                    b[i] = v
                    yield {'seed': name, 'fault': 'bytesub', 'offset': i, 'how': how}, bytes(b)
    elif klass == 'field':
        m = Mini(data)
        for label, off, w in m.fields():
            if off + w > L:
                continue
            cur = m.u(off, w)
            for v in fault_values(cur, w, L):
                yield {'seed': name, 'fault': 'field', 'field': label, 'value': v}, put(data, off, w, v, m.le)
    elif klass == 'pairs':
        m = Mini(data)
        fl = [(l, o, w) for l, o, w in m.fields() if l.startswith('ehdr.')]
        strndx = m.eh['e_shstrndx']
        second = list(fl)
        for l, o, w in m.fields():
            if l.startswith('shdr[0].') or (strndx < len(m.shdrs) and l.startswith('shdr[%d].' % strndx)):
                second.append((l, o, w))
        for i, (l1, o1, w1) in enumerate(fl):
            for (l2, o2, w2) in second:
                if l2.startswith('ehdr.') and second.index((l2, o2, w2)) <= i:
                    continue
                if o2 + w2 > L:
                    continue
                for v1 in fault_values(m.u(o1, w1), w1, L):
                    d1 = put(data, o1, w1, v1, m.le)
                    for v2 in fault_values(m.u(o2, w2), w2, L):
                        yield {'seed': name, 'fault': 'pair', 'fields': [l1, l2], 'values': [v1, v2]}, put(d1, o2, w2, v2, m.le)
    elif klass == 'truncate+xindex':
        # every truncation at a header-table boundary combined with the extended-numbering escapes
        m = Mini(data)
        off = dict((n, (o, w)) for n, o, w in m.EH)
        for cut in m.boundaries():
            for fld, val in (('e_shstrndx', 0xffff), ('e_shnum', 0), ('e_phnum', 0xffff)):
                o, w = off[fld]
                if o + w <= cut:
                    yield {'seed': name, 'fault': 'truncate+field', 'len': cut, 'field': 'ehdr.' + fld, 'value': val}, put(data, o, w, val, m.le)[:cut]


FAULT_CLASSES = ['truncate', 'bytesub', 'field', 'pairs', 'truncate+xindex']


def _units(tier):
    u = []
    for name, data in seeds(tier):
        for k in FAULT_CLASSES:
            if k == 'pairs' and tier == 'quick' and not name.startswith('synth-64-lsb') and not name.startswith('synth-32-msb'):
                continue
            u.append((name, k))
    u.append(('tiny', 'short_strings'))
    return u


def _make_part(tier):
    def fn(part, nparts):
        signal.signal(signal.SIGALRM, _alarm)
        r = BulkResult()
        sd = dict(seeds(tier))
        outs = set()
        idx = 0
        for name, klass in _units(tier):
            if klass == 'short_strings':
                gen = _short_strings()
            else:
                gen = gen_faults(name, sd[name], klass)
            for desc, mutated in gen:
                idx += 1
                if idx % nparts != part:
                    continue
                co, bo, viol = examine(mutated)
                r.evaluations += 1
                outs.add((co, bo))
                if co == 'ok':
                    r.nontrivial += 1
                if viol:
                    r.fails.append((desc, viol[0], viol[1], viol[2]))
                if r.sample is None and part == 1 and klass == 'field' and co == 'ok':
                    r.sample = {'fault': desc, 'construction': co, 'battery': bo}
        r.n_states = r.evaluations
        r.outcomes = {core.digest(repr(x)) for x in outs}
        return r
    return fn


def _short_strings():
    yield {'fault': 'bytes', 'hex': ''}, b''
    for a in range(256):
        yield {'fault': 'bytes', 'hex': '%02x' % a}, bytes([a])
    for a in range(256):
        for b in range(256):
            yield {'fault': 'bytes', 'hex': '%02x%02x' % (a, b)}, bytes([a, b])
    for a in range(256):
        for b in range(256):
            for tail in (b'', b'\x01' + b'\0' * 9, b'\x01' + b'\0' * 60):
                yield {'fault': 'magic+class+data', 'class': a, 'data': b, 'tail': len(tail)}, b'\x7fELF' + bytes([a, b]) + tail


def _replay(desc):
    if desc['fault'] == 'bytes':
        data = bytes.fromhex(desc['hex'])
    elif desc['fault'] == 'magic+class+data':
        data = b'\x7fELF' + bytes([desc['class'], desc['data']]) + ((b'\x01' + b'\0' * (desc['tail'] - 1)) if desc['tail'] else b'')
    else:
        sd = dict(seeds('thorough'))
        base = sd[desc['seed']]
        klass = {'truncate': 'truncate', 'bytesub': 'bytesub', 'field': 'field', 'pair': 'pairs', 'truncate+field': 'truncate+xindex'}[desc['fault']]
        data = None
        for d, mutated in gen_faults(desc['seed'], base, klass):
            if d == desc:
                data = mutated
                break
        if data is None:
            raise core.HarnessError('fault descriptor not found: %r' % desc)
    signal.signal(signal.SIGALRM, _alarm)
    co, bo, viol = examine(data)
    return [viol] if viol else []


def spaces(tier, seed):
    global SEED, _SEEDS
    SEED = seed
    _SEEDS = None
    return [BulkSpace('faults', _make_part(tier), 64, _replay,
                      rule='seeds: 4 synthesized kitchen-sink images (class x order; interp, notes, SysV+GNU hash, dynsym, versions, rela, dynamic, symtab; 5 segments) + vendored corpus ELF files '
                           '(<= %d bytes); faults: every truncation length, every first-64-byte substitution {00,ff,+1,^80}, every header/record field x {0,1,all-ones,top bit,+1,file size,file size+1}, '
                           'all pairs of file-header field faults and file-header x section-0/name-table-header field faults%s, header-boundary truncations x extended-numbering escapes, every byte string '
                           '<= 2, magic + every (class,data) pair; non-trivial = construction succeeded and the battery ran' % (2048 if tier == 'quick' else 4096, ' (two synthesized seeds in quick)' if tier == 'quick' else ''))]
