"""C15 — symbol-version sections resolve each symbol to its encoded version.

E1 over version-definition / version-requirement / version-symbol sections built from a model:
entry and auxiliary counts, next/aux displacements (dense, padded, auxiliaries placed after all
entries), index assignments (sparse, hidden bit in versym, reserved values), flags, name offsets,
versym length.  Complete query sets: get_version(i) for every index 0..max+1, every versym entry.
"""
import io
import struct

from mcx import core, elfgen as eg
from mcx.core import Case, ChoiceSpace, guarded, Raised
from mcx.observe import plain
from mcx.ref import names as nm

ID = 'C15'
LEVEL = 'model_checking'
ASSUMPTIONS = ['every entry has at least one auxiliary; next/aux displacements are forward (unsigned) as the format requires']
SEED = 0


def _layout(entries, ent_size, aux_size, mode):
    """entries: list of aux counts.  Returns (positions of entries, positions of aux lists, total size)."""
    pad = 8 if mode == 'padded' else 0
    epos, apos = [], []
    pos = 0
    if mode in ('dense', 'padded'):
        for n in entries:
            epos.append(pos)
            pos += ent_size + pad
            a = []
            for _ in range(n):
                a.append(pos)
                pos += aux_size + pad
            apos.append(a)
    elif mode == 'aux_after':
        for n in entries:
            epos.append(pos)
            pos += ent_size
        for n in entries:
            a = []
            for _ in range(n):
                a.append(pos)
                pos += aux_size
            apos.append(a)
    elif mode == 'aux_gap':
        for n in entries:
            epos.append(pos)
            pos += ent_size + 12          # a gap between the entry and its first auxiliary
            a = []
            for _ in range(n):
                a.append(pos)
                pos += aux_size
            apos.append(a)
    return epos, apos, pos


def run_versions(ch):
    cls = ch.free('class', [64, 32])
    le = ch.free('data', [True, False])
    img = eg.Img(cls, le, seed=SEED)
    f = img.f
    o = f.o
    ndef = ch.pick('definitions', [2, 0, 1, 4])
    nneed = ch.pick('requirements', [2, 0, 1, 3])
    naux = ch.pick('auxiliaries', [1, 2, 4])
    mode = ch.pick('displacements', ['dense', 'padded', 'aux_after', 'aux_gap'])
    idxmode = ch.pick('indices', ['contiguous', 'sparse', 'reserved', 'duplicate', 'zero_other', 'descending', 'shuffled'])
    flagmode = ch.pick('flags', ['typical', 'all_ones', 'zero'])
    nameplace = ch.pick('name_offsets', ['middle', 'start', 'last'])
    nsym = ch.pick('versym_length', [6, 0, 1, 40])
    hidden = ch.pick('versym_values', ['plain', 'hidden_bit', 'reserved', 'index_plain_then_hidden'])
    ventsize = ch.pick('versym_entsize', [2])
    strlead = {'middle': b'\0pad\0', 'start': b'\0', 'last': b'\0' + b'x' * 300 + b'\0'}[nameplace]
    st = eg.StrTab(strlead)

    def idx(k):
        if idxmode == 'contiguous':
            return 2 + k
        if idxmode == 'sparse':
            return (2, 5, 9, 17, 33, 200, 0x7fff, 3)[k % 8] + (k // 8) * 300
        if idxmode == 'reserved':
            return (2, 0xff00, 0xff01, 0xffff, 3, 4, 6, 7)[k % 8]
        if idxmode == 'duplicate':
            return 2 + (k // 2)
        if idxmode == 'descending':         # layout order is not index order: lookups must follow the chain to its end
            return 40 - k
        if idxmode == 'shuffled':
            return (2, 9, 4, 3, 8, 5, 7, 6)[k % 8] + (k // 8) * 8
        return 2 + k
    fl = {'typical': (0, 1, 2), 'all_ones': (0xffff,) * 3, 'zero': (0,) * 3}[flagmode]
    # --- definitions
    defs = []
    for i in range(ndef):
        auxn = ['ver_def_%d' % i] + ['parent_%d_%d' % (i, j) for j in range(1, naux)]
        defs.append(dict(version=1, flags=fl[i % 3], ndx=(1 if i == 0 and idxmode == 'contiguous' else idx(i)), hash=0x0d696910 + i, aux=[(st.add(n), n) for n in auxn]))
    epos, apos, dsize = _layout([len(d['aux']) for d in defs], 20, 8, mode)
    dbuf = bytearray(eg.filler(SEED + 21, dsize))
    for i, d in enumerate(defs):
        nxt = (epos[i + 1] - epos[i]) if i + 1 < len(defs) else 0
        dbuf[epos[i]:epos[i] + 20] = struct.pack(o + 'HHHHIII', d['version'], d['flags'], d['ndx'], len(d['aux']), d['hash'], apos[i][0] - epos[i], nxt)
        for j, (noff, n) in enumerate(d['aux']):
            an = (apos[i][j + 1] - apos[i][j]) if j + 1 < len(d['aux']) else 0
            dbuf[apos[i][j]:apos[i][j] + 8] = struct.pack(o + 'II', noff, an)
    # --- requirements
    needs = []
    k = 0
    for i in range(nneed):
        auxs = []
        for j in range(naux):
            other = idx(ndef + k)
            if idxmode == 'zero_other' and j == 0:
                other = 0
            n = 'GLIBC_2.%d' % (k + 2)
            auxs.append(dict(hash=0x09691a70 + k, flags=fl[k % 3], other=other, name=n, noff=st.add(n)))
            k += 1
        fn = 'lib%d.so.6' % i
        needs.append(dict(version=1, file=fn, foff=st.add(fn), aux=auxs))
    npos, napos, nsize = _layout([len(n['aux']) for n in needs], 16, 16, mode)
    nbuf = bytearray(eg.filler(SEED + 22, nsize))
    for i, n in enumerate(needs):
        nxt = (npos[i + 1] - npos[i]) if i + 1 < len(needs) else 0
        nbuf[npos[i]:npos[i] + 16] = struct.pack(o + 'HHIII', n['version'], len(n['aux']), n['foff'], napos[i][0] - npos[i], nxt)
        for j, a in enumerate(n['aux']):
            an = (napos[i][j + 1] - napos[i][j]) if j + 1 < len(n['aux']) else 0
            nbuf[napos[i][j]:napos[i][j] + 16] = struct.pack(o + 'IHHII', a['hash'], a['flags'], a['other'], a['noff'], an)
    # --- dynsym + versym
    symnames = [''] + ['sym_%d' % i for i in range(1, max(nsym, 1))]
    symnames = symnames[:nsym] if nsym else []
    soffs = [st.add(n) for n in symnames]
    vvals = []
    # plain values name versions that exist (local, global, then every defined / required index in turn), as a linker writes them
    carried_idx = [0, 1] + [d['ndx'] for d in defs] + [a['other'] for n in needs for a in n['aux']]
    for i in range(nsym):
        v = carried_idx[i % len(carried_idx)] & 0x7fff
        if hidden == 'hidden_bit' and i % 2:
            v |= 0x8000
        if hidden == 'reserved':
            v = (0, 1, 0xff00, 0xff01, 0xffff, 0x7fff)[i % 6]
        if hidden == 'index_plain_then_hidden':
            # two symbols carry the SAME version index, the second with the hidden bit (foo@@V and bar@V): the bit belongs to the symbol, not to the version
            pool = [d['ndx'] & 0x7fff for d in defs if 2 <= (d['ndx'] & 0x7fff) < 0xff00] or [1]      # definitions only: these symbols are defined ones
            v = pool[(i // 2) % len(pool)]
            if i % 2 and v >= 2:
                v |= 0x8000
        vvals.append(v)
    img.null()
    strsec = img.add(eg.Sec('.dynstr', 3, data=st.bytes(), flags=2, addr=0x410000))
    symsec = img.add(eg.Sec('.dynsym', 11, data=b''.join(f.sym(soffs[i], 0x1000 + i, 0, 0x12, 0, 1 if i else 0) for i in range(nsym)), flags=2,
                            link=strsec.index, info=1, entsize=f.symsize, align=8, addr=0x420000))
    vsec = img.add(eg.Sec('.gnu.version', 0x6fffffff, data=b''.join(struct.pack(o + 'H', v) for v in vvals), flags=2, link=symsec.index, entsize=ventsize, align=2, addr=0x430000))
    dsec = img.add(eg.Sec('.gnu.version_d', 0x6ffffffd, data=bytes(dbuf), flags=2, link=strsec.index, info=ndef, align=4, file_align=ch.pick('file_align', [4, 1]), addr=0x440000))
    rsec = img.add(eg.Sec('.gnu.version_r', 0x6ffffffe, data=bytes(nbuf), flags=2, link=strsec.index, info=nneed, align=4, addr=0x450000))
    # the dynamic section that announces the tables (GNU readelf reads the version symbols through DT_VERSYM)
    dtags = [(5, 0x410000), (6, 0x420000), (10, len(st.bytes())), (11, f.symsize), (0x6ffffff0, 0x430000), (0x6ffffffc, 0x440000), (0x6ffffffd, ndef), (0x6ffffffe, 0x450000),
             (0x6fffffff, nneed), (0, 0)]
    dynsec = img.add(eg.Sec('.dynamic', 6, data=b''.join(f.dyn(t, v) for t, v in dtags), flags=3, link=strsec.index, entsize=f.dynsize, align=8, addr=0x460000))
    img.add_shstrtab()
    for s_ in (strsec, symsec, vsec, dsec, rsec, dynsec):      # every allocated table is mapped (one PT_LOAD each: biases differ), as in a linked object
        img.seg(eg.Seg(1, 4, of=s_, align=1))
    img.seg(eg.Seg(2, 6, of=dynsec, align=8))
    data = img.encode()

    from elftools.elf.elffile import ELFFile
    fails = []
    elf = guarded(ELFFile, io.BytesIO(data))
    if isinstance(elf, Raised):
        return Case([('ELFFile()', 'constructs', elf)], data, repr(elf))
    out = []
    # ---- verdef
    vd = guarded(elf.get_section, dsec.index)
    if type(vd).__name__ != 'GNUVerDefSection':
        fails.append(('verdef class', 'GNUVerDefSection', vd))
    else:
        g = guarded(vd.num_versions)
        if g != ndef:
            fails.append(('verdef.num_versions()', ndef, g))

        def dump_defs():
            res = []
            for ver, auxit in vd.iter_versions():
                res.append((plain(ver.entry), [(plain(a.entry), a.name) for a in auxit]))
            return res
        got = guarded(dump_defs)
        exp = []
        for i, d in enumerate(defs):
            nxt = (epos[i + 1] - epos[i]) if i + 1 < len(defs) else 0
            e = dict(vd_version=d['version'], vd_flags=d['flags'], vd_ndx=d['ndx'], vd_cnt=len(d['aux']), vd_hash=d['hash'], vd_aux=apos[i][0] - epos[i], vd_next=nxt)
            ax = []
            for j, (noff, n) in enumerate(d['aux']):
                an = (apos[i][j + 1] - apos[i][j]) if j + 1 < len(d['aux']) else 0
                ax.append((dict(vda_name=noff, vda_next=an), n))
            exp.append((e, ax))
        if got != exp:
            fails.append(('verdef.iter_versions()', exp[:2], got if isinstance(got, Raised) else got[:2]))
        out.append(got)
        # flat-then-descend consumption: collect the auxiliary iterators first, consume them later (and in reverse)
        def dump_late():
            pairs = list(vd.iter_versions())
            res = [None] * len(pairs)
            for i in range(len(pairs) - 1, -1, -1):
                res[i] = [a.name for a in pairs[i][1]]
            return res
        g2 = guarded(dump_late)
        if g2 != [[n for _, n in ax] for _, ax in exp]:
            fails.append(('verdef auxiliaries consumed late', 'same names', g2))
        maxi = max([d['ndx'] for d in defs] + [3])
        carried = [d['ndx'] for d in defs]
        qs = sorted(set(list(range(0, min(maxi, 40) + 2)) + carried + [v ^ 0x8000 for v in carried] + [v & 0x7fff for v in carried]
                        + [v + 1 for v in carried] + [max(0, v - 1) for v in carried] + [maxi + 1, 0xffff, 0x8002]))
        for q in qs:
            carriers = [i for i, d in enumerate(defs) if d['ndx'] == q]
            g = guarded(lambda: (lambda r: None if r is None else (plain(r[0].entry), [a.name for a in r[1]]))(vd.get_version(q)))
            if not carriers:
                if g is not None:
                    fails.append(('verdef.get_version(%d)' % q, None, g))
            else:
                ok = any(g == (exp[i][0], [n for _, n in exp[i][1]]) for i in carriers)
                if not ok:
                    fails.append(('verdef.get_version(%d)' % q, 'entry %r' % carriers, g))
                # the same question again on the same section object (its auxiliaries consumed again) has the same answer
                g_again = guarded(lambda: (lambda r: None if r is None else (plain(r[0].entry), [a.name for a in r[1]]))(vd.get_version(q)))
                if g_again != g:
                    fails.append(('verdef.get_version(%d) asked twice' % q, 'the same answer', g_again))
    # ---- verneed
    vn = guarded(elf.get_section, rsec.index)
    if type(vn).__name__ != 'GNUVerNeedSection':
        fails.append(('verneed class', 'GNUVerNeedSection', vn))
    else:
        g = guarded(vn.num_versions)
        if g != nneed:
            fails.append(('verneed.num_versions()', nneed, g))

        def dump_needs():
            res = []
            for ver, auxit in vn.iter_versions():
                res.append((plain(ver.entry), ver.name, [(plain(a.entry), a.name) for a in auxit]))
            return res
        got = guarded(dump_needs)
        exp = []
        for i, n in enumerate(needs):
            nxt = (npos[i + 1] - npos[i]) if i + 1 < len(needs) else 0
            e = dict(vn_version=n['version'], vn_cnt=len(n['aux']), vn_file=n['foff'], vn_aux=napos[i][0] - npos[i], vn_next=nxt)
            ax = []
            for j, a in enumerate(n['aux']):
                an = (napos[i][j + 1] - napos[i][j]) if j + 1 < len(n['aux']) else 0
                ax.append((dict(vna_hash=a['hash'], vna_flags=a['flags'], vna_other=a['other'], vna_name=a['noff'], vna_next=an), a['name']))
            exp.append((e, n['file'], ax))
        if got != exp:
            fails.append(('verneed.iter_versions()', exp[:2], got if isinstance(got, Raised) else got[:2]))
        out.append(got)
        others = [a['other'] for n in needs for a in n['aux']]
        g = guarded(vn.has_indexes)
        if g != any(others):
            fails.append(('verneed.has_indexes()', any(others), g))
        maxi = max(others + [3])
        qs = sorted(set(list(range(0, min(maxi, 40) + 2)) + others + [v ^ 0x8000 for v in others] + [v & 0x7fff for v in others]
                        + [v + 1 for v in others] + [max(0, v - 1) for v in others] + [maxi + 1, 0xffff, 0x8002]))
        for q in qs:
            carriers = [(i, j) for i, n in enumerate(needs) for j, a in enumerate(n['aux']) if a['other'] == q]
            g = guarded(lambda: (lambda r: None if r is None else (plain(r[0].entry), r[0].name, plain(r[1].entry), r[1].name))(vn.get_version(q)))
            if not carriers:
                if g is not None:
                    fails.append(('verneed.get_version(%d)' % q, None, g))
            else:
                ok = any(g == (exp[i][0], exp[i][1], exp[i][2][j][0], exp[i][2][j][1]) for i, j in carriers)
                if not ok:
                    fails.append(('verneed.get_version(%d)' % q, 'auxiliary %r' % carriers[:3], g))
    # ---- versym
    vs = guarded(elf.get_section, vsec.index)
    if type(vs).__name__ != 'GNUVerSymSection':
        fails.append(('versym class', 'GNUVerSymSection', vs))
    else:
        g = guarded(vs.num_symbols)
        if g != nsym:
            fails.append(('versym.num_symbols()', nsym, g))
        it = guarded(lambda: [(plain(s.entry), s.name) for s in vs.iter_symbols()])
        if isinstance(it, Raised) or len(it) != nsym:
            fails.append(('versym.iter_symbols()', '%d entries' % nsym, it if isinstance(it, Raised) else len(it)))
        else:
            for i in range(nsym):
                e, n = it[i]
                r = nm.check('versym', '*', vvals[i], e.get('ndx'))
                if r or n != symnames[i] or set(e) != {'ndx'}:
                    fails.append(('versym[%d]' % i, (vvals[i], symnames[i]), (e, n)))
                    break
                gs = guarded(lambda: (lambda s: (plain(s.entry), s.name))(vs.get_symbol(i)))
                if gs != it[i]:
                    fails.append(('versym.get_symbol(%d)' % i, it[i], gs))
                    break
        out.append(it)
    return Case(fails, data, repr(out), nontrivial=(ndef + nneed + nsym) > 0,
                sample={'class': cls, 'le': le, 'definitions': [(d['ndx'], [n for _, n in d['aux']]) for d in defs][:3],
                        'requirements': [(n['file'], [(a['other'], a['name']) for a in n['aux']]) for n in needs][:2], 'versym': vvals[:8], 'layout': mode},
                checks=ndef + nneed + nsym + 3)


def spaces(tier, seed):
    global SEED
    SEED = seed
    k = 3 if tier == 'quick' else 5
    return [ChoiceSpace('version-sections', run_versions, k, rule='definitions {2,0,1,4} x requirements {2,0,1,3} x auxiliaries per entry {1,2,4} x displacements {dense, +8 padded, auxiliaries after all entries, '
                        'gap before auxiliaries} x indices {contiguous, sparse, reserved values, duplicates, zero other} x flags x name offsets {middle,start,last} x versym length {6,0,1,40} x versym values '
                        '{plain, hidden bit, reserved} x file alignment x class x order; get_version for every index 0..max+1 (+0xffff, 0x8002); non-trivial = at least one entry')]
