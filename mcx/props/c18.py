"""C18 — the readelf clone prints what GNU readelf prints.

Differential, bounded-exhaustive: (1) every (corpus file, option) pair minus the exclusions the
project documents; (2) one synthesized image per value of the description tables (e_machine, OS ABI,
e_type, sh_type, sh_flags bits, p_type, p_flags, symbol bind/type/visibility/shndx, dynamic tags and
flag bits, note types, relocation types per machine, DW_TAG/AT/FORM/LANG/ATE, every DW_OP and DW_CFA);
(3) generated files from the model generators restricted to the supported envelope.
Oracle: /usr/bin/readelf (binutils 2.40); comparison = vendored copy of the project's compare_output.
Pairs on which the oracle itself fails or warns, prints its unknown fallback, or which fall under the
closed drift list (c18_oracle_drift.json) are skipped and counted.
"""
import glob
import importlib.util
import io
import json
import os
import pickle
import signal
import subprocess
import sys
import tempfile

from mcx import core
from mcx.core import BulkSpace, BulkResult, ListSpace

ID = 'C18'
LEVEL = 'exploration'
ASSUMPTIONS = ['oracle = GNU readelf 2.40 from the image (the project pins 2.41); drift is limited to the closed class list in c18_oracle_drift.json',
               'a pair is outside the envelope when the oracle exits non-zero, writes to stderr, or prints its own unknown-value fallback for the probed value',
               'comparison = frozen copy of the project\'s compare_output (vendor/compare_output.py)']
ROOT = os.path.dirname(os.path.dirname(os.path.dirname(os.path.abspath(__file__))))
REPO = os.environ.get('VERIF_REPO', '/repo')
READELF = '/usr/bin/readelf'
SCRATCH = os.environ.get('VERIF_SCRATCH') or ('/dev/shm' if os.path.isdir('/dev/shm') else tempfile.gettempdir())

OPTIONS = ['-e', '-d', '-s', '-n', '-r', '-x.text', '-p.shstrtab', '-V', '--debug-dump=info', '--debug-dump=decodedline', '--debug-dump=frames',
           '--debug-dump=frames-interp', '--debug-dump=aranges', '--debug-dump=pubtypes', '--debug-dump=pubnames', '--debug-dump=loc', '--debug-dump=Ranges',
           '--arch-specific']


FALLBACKS = ('<unknown>', '<unknown:', 'unknown tag value', 'unknown at value', 'unknown form value', '<processor specific>', '<os specific>', 'processor specific:',
             'os specific:', 'operating system specific:', 'loos+', 'loproc+', 'louser+', 'unrecognized:', 'unknown note type', '(unknown:', '(unknown ', 'unknown op',
             '(user defined', 'user tag value', 'implementation defined:', 'unknown machine', '<application specific>', 'unknown language', 'bad value', '<corrupt', 'unknown cfa', '(unknown)')
# generated files (space 3) may carry unknown values anywhere, not only in the probed field: every rendering by which the oracle says "I do not know this value"
FALLBACKS_GENERATED = FALLBACKS + ('???', 'tag_unknown_', 'unknown attribute', 'unknown tag', 'unknown at', 'unknown form', '<other>:', 'unknown version', '<unknown', 'unknown:', 'invalid',
                                   'unrecognised', 'unrecognized')


RANGE_RENDERINGS = ('loos+', 'loproc+', 'louser+')
OURS_UNKNOWN = ('<unknown>', 'unrecognized:', 'unknown note type', '??? (', '<unknown:')


def _without_legend(low):
    """the flag-key legend of -S ("Key to Flags: ... p (processor specific)") is not data: cut it, up to the next blank line"""
    k = low.find('key to flags:')
    if k < 0:
        return low
    e = low.find('\n\n', k)
    return low[:k] + (low[e:] if e >= 0 else '')


def drift():
    return json.load(open(os.path.join(ROOT, 'c18_oracle_drift.json')))


_GNU_ENV = dict({k: v for k, v in os.environ.items() if not k.startswith('LC_') and k not in ('LANG', 'LANGUAGE')}, LC_ALL='C.UTF-8')


def gnu(option, path):
    # a fixed UTF-8 locale: in the C locale GNU readelf mangles multi-byte symbol names byte by byte, which no user of a UTF-8 terminal sees
    p = subprocess.run([READELF] + option.split(' ') + [path], stdout=subprocess.PIPE, stderr=subprocess.PIPE, timeout=120, env=_GNU_ENV)
    return p.returncode, p.stdout.decode('latin-1'), p.stderr.decode('latin-1')


def ours_subprocess(option, path):
    """The real thing: `python scripts/readelf.py <option> <file>` with cwd = repository root."""
    p = subprocess.run([sys.executable, os.path.join(REPO, 'scripts', 'readelf.py')] + option.split(' ') + [path], stdout=subprocess.PIPE, stderr=subprocess.PIPE,
                       cwd=REPO, timeout=300, env=dict(os.environ, PYTHONPATH=REPO))
    return p.returncode, p.stdout.decode('latin-1'), p.stderr.decode('latin-1')


_SCRIPT = None


def _script():
    global _SCRIPT
    if _SCRIPT is None:
        spec = importlib.util.spec_from_file_location('readelf_script', os.path.join(REPO, 'scripts', 'readelf.py'))
        m = importlib.util.module_from_spec(spec)
        spec.loader.exec_module(m)
        _SCRIPT = m
    return _SCRIPT


def ours_forked(option, path):
    """scripts/readelf.py main() in a forked child of a process that has only imported it: same fresh-process semantics as
    the subprocess (no library state survives between calls) at a fraction of the start-up cost."""
    m = _script()
    r, w = os.pipe()
    pid = os.fork()
    if pid == 0:
        os.close(r)
        rc = 0
        out = io.StringIO()
        signal.alarm(120)
        try:
            sys.argv = ['readelf.py'] + option.split(' ') + [path]
            os.chdir(REPO)
            sys.stderr = io.StringIO()
            try:
                m.main(stream=out)
            except SystemExit as e:
                rc = e.code if isinstance(e.code, int) else (0 if e.code is None else 1)
            except BaseException as e:      # noqa: BLE001
                rc = 70
                out.write('\n<<uncaught %s: %s>>\n' % (type(e).__name__, e))
            # what the real process would put on a UTF-8 stdout, read back the way the oracle's bytes are (latin-1)
            os.write(w, pickle.dumps((rc, out.getvalue().encode('utf-8', 'backslashreplace').decode('latin-1'), sys.stderr.getvalue())))
        finally:
            os._exit(0)
    os.close(w)
    buf = b''
    while True:
        c = os.read(r, 1 << 16)
        if not c:
            break
        buf += c
    os.close(r)
    os.waitpid(pid, 0)
    if not buf:
        return 71, '', 'child died'
    return pickle.loads(buf)


def compare(option, path, image_has=(), runner=ours_forked, probe=None):
    """-> (status, detail)  status in {'match','mismatch','oracle-skip','drift-skip','ours-failed'}"""
    from vendor.compare_output import compare_output
    rc, out, err = gnu(option, path)
    if rc != 0 or err.strip():
        return 'oracle-skip', (err.strip() or 'exit %d' % rc)[:200]
    for rule in drift()['rules']:
        if option == rule['option'] and any(s in image_has for s in rule['when_sections_present']):
            return 'drift-skip', rule['why'][:80]
    if probe is True and any(ord(c) > 127 for c in out):
        return 'oracle-skip', 'non-ASCII text: GNU readelf sanitises it byte by byte depending on its locale handling'
    if probe is not None:
        # the oracle's own "I do not know this value" renderings (the flag-key legend of -S is not data)
        low = _without_legend(out.lower())
        pats = FALLBACKS_GENERATED if probe is True else FALLBACKS
        if isinstance(probe, (list, tuple)) and str(probe[0]).endswith('_range'):
            pats = tuple(p for p in pats if p not in RANGE_RENDERINGS)      # the probed rendering itself
        for pat in pats:
            if pat in low:
                return 'oracle-skip', 'oracle prints its fallback (%s)' % pat
    rc2, out2, err2 = runner(option, path)
    if probe is True and rc2 == 0:
        # generated files: a value the clone itself reports as unknown is not a supported feature (a crash still is a failure)
        low2 = _without_legend(out2.lower())
        for pat in OURS_UNKNOWN:
            if pat in low2:
                return 'oracle-skip', 'the clone prints its own unknown-value fallback (%s)' % pat
    if rc2 != 0:
        return 'ours-failed', 'readelf.py exit %s: %s' % (rc2, (err2 or out2)[-300:])
    try:
        ok, msg = compare_output(out, out2)
    except ValueError as e:
        # the project's comparison function assumes a numeric last field on DW_AT_const_value lines that ALREADY differ: it is a mismatch on such a line
        l1 = [''.join(x.lower().split()) for x in out.splitlines() if x.strip()]
        l2 = [''.join(x.lower().split()) for x in out2.splitlines() if x.strip()]
        d = next((i for i, (a, b) in enumerate(zip(l1, l2)) if a != b), min(len(l1), len(l2)))
        ok, msg = False, 'Mismatch near line #%d (comparison function raised %s):\n>>%s<<\n>>%s<<' % (d, e, l1[d] if d < len(l1) else '', l2[d] if d < len(l2) else '')
    return ('match', '') if ok else ('mismatch', msg[:600])


# ---- space 1: corpus --------------------------------------------------------------------------------------------

def corpus_pairs():
    files = sorted(glob.glob(os.path.join(REPO, 'test', 'testfiles_for_readelf', '*.elf')))
    for f in files:
        if os.path.getsize(f) == 0:
            continue
        base = os.path.basename(f)
        for o in OPTIONS:
            # the exclusions the project's own runner documents
            if base.endswith('dwarf_debug_types.elf') and o in ('--debug-dump=frames', '--debug-dump=frames-interp', '--debug-dump=aranges'):
                continue
            if 'core' in base and o == '-n':
                continue
            if 'dwarf_v4cie' in base and o in ('--debug-dump=frames-interp', '--debug-dump=aranges'):
                continue
            if o == '--arch-specific' and '-eabi-' not in base:
                continue
            yield [base, o]


def _sections_of(path):
    from mcx.minielf import Mini
    try:
        data = open(path, 'rb').read()
        m = Mini(data)
        sh = m.shdrs[m.eh['e_shstrndx']][1]
        st = data[sh['sh_offset']:sh['sh_offset'] + sh['sh_size']]
        return [st[h['sh_name']:st.find(b'\0', h['sh_name'])].decode('latin-1') for _, h in m.shdrs]
    except Exception:       # noqa: BLE001
        return []


def _corpus_check(desc):
    base, o = desc
    path = os.path.join(REPO, 'test', 'testfiles_for_readelf', base)
    st, detail = compare(o, path, image_has=_sections_of(path), runner=ours_subprocess)
    fails = []
    if st in ('mismatch', 'ours-failed'):
        fails.append(('%s %s' % (o, base), 'output equal to GNU readelf 2.40', detail))
    return fails, st == 'match', st, (base + o).encode(), st in ('oracle-skip', 'drift-skip')


def spaces(tier, seed):
    sp0 = ListSpace('corpus-x-options', corpus_pairs, _corpus_check, nparts=64,
                    rule='every (file, option) pair of test/testfiles_for_readelf/*.elf x the 18 options of the project\'s runner minus its documented exclusions; real subprocess '
                         '`python scripts/readelf.py` with cwd = repository root; non-trivial = compared and matched (oracle-skip / drift-skip pairs are distinct outcomes)')
    sp0.report_all = True
    sp = [sp0]
    try:
        from mcx.props import c18_tables
        sp += c18_tables.spaces(tier, seed)
    except ImportError:
        pass
    if os.environ.get('VERIF_C18_GENERATED', '1') == '1':
        from mcx.props import c18_generated
        sp += c18_generated.spaces(tier, seed)
    if os.environ.get('VERIF_C18_SEQUENCES', '1') == '1':
        from mcx.props import c18_sequences
        sp += c18_sequences.spaces(tier, seed)
    return sp
