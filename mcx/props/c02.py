"""C02 — section/segment contents, string tables, address mapping, containment.

Spaces: (1) E1 over a probe section (size, placement, kind, compression framing);
(2) string tables: get_string at EVERY offset of tables holding strings of boundary lengths;
(3) segment data / interpreter path; (4) address_offsets: complete product of PT_LOAD layouts x
boundary (start,size) queries; (5) section_in_segment: complete product of segment type x
extent x section flags x type x size x address geometry x offset geometry vs the transcription
of binutils' ELF_SECTION_IN_SEGMENT_1 (strict), restricted to the four named condition groups.
"""
import io
import zlib

from mcx import core, elfgen as eg
from mcx.core import Case, ChoiceSpace, ListSpace, BulkSpace, BulkResult, guarded, Raised
from mcx.ref import insegment, names

ID = 'C02'
LEVEL = 'model_checking'
ASSUMPTIONS = ['zlib (CPython binding) is the inflate reference', 'containment oracle = binutils 2.40 include/elf/internal.h transcribed; cases where the full '
               'macro differs from the four named condition groups (TBSS special, zero-size in PT_DYNAMIC/PT_NOTE, SFRAME/MBIND) are counted as outside the envelope']
SEED = 0


def _elf(data):
    from elftools.elf.elffile import ELFFile
    return ELFFile(io.BytesIO(data))


# ---- 1. section data ---------------------------------------------------------------------

def _payload(seed, n):
    # compressible but not trivial: repeated filler blocks with a counter
    blk = eg.filler(seed + 7, 97)
    out = bytearray()
    i = 0
    while len(out) < n:
        out += blk[: 1 + (i * 13) % 97] + bytes([i & 0xff])
        i += 1
    return bytes(out[:n])


def run_section(ch):
    cls = ch.free('class', [64, 32])
    le = ch.free('data', [True, False])
    img = eg.Img(cls, le, seed=SEED)
    f = img.f
    size = ch.pick('size', [16, 0, 1, 63, 64, 65, 4096, 70000])
    place = ch.pick('placement', ['aligned', 'odd', 'at_eof'])
    kind = ch.pick('kind', ['progbits', 'nobits0', 'nobits1', 'nobits1000', 'other_type'])
    comp = ch.pick('compression', ['none', 'zlib6', 'zlib0', 'zlib1', 'zlib9', 'raw_looks_like_chdr'])
    frame = ch.pick('framing', ['ok', 'ch_size+1', 'ch_size-1', 'unknown_ch_type', 'ch_size0', 'trailing_garbage', 'truncated_stream']) if comp.startswith('zlib') else 'ok'
    ch_align = ch.pick('ch_addralign', [1, 0, 8, 4096]) if comp.startswith('zlib') else 1
    sh_align = ch.pick('sh_addralign', [16, 1, 0])
    # a second section with the SAME name and storage kind but other contents (one .debug_macro per COMDAT group, two .dynstr ...): contents belong to a section, not to a name
    twin = ch.pick('same_name_twin', ['none', 'before', 'after'])
    img.null()
    if place == 'odd':
        img.add(eg.Sec('.pad', 1, data=b'\xaa', file_align=1))
    payload = _payload(SEED, size)
    exp_data = payload
    exp_size = size
    exp_align = sh_align
    exp_err = None
    compressed = False
    flags = 2
    if kind.startswith('nobits'):
        n = {'nobits0': 0, 'nobits1': 1, 'nobits1000': 1000}[kind]
        sec = eg.Sec('.probe', 8, flags=3, size=n, align=sh_align, file_align=1)
        exp_data, exp_size = b'\0' * n, n
        comp = 'none'
    else:
        stype = 1 if kind == 'progbits' else 0x60000001
        raw = payload
        if comp.startswith('zlib'):
            level = int(comp[4])
            stream = zlib.compress(payload, level)
            ch_type, ch_size = 1, size
            if frame == 'ch_size+1':
                ch_size, exp_err = size + 1, 'ELFCompressionError'
            elif frame == 'ch_size-1':
                if size == 0:
                    ch_size = 0
                else:
                    ch_size, exp_err = size - 1, 'ELFCompressionError'
            elif frame == 'ch_size0':
                ch_size = 0
                exp_err = 'ELFCompressionError' if size else None
            elif frame == 'unknown_ch_type':
                ch_type, exp_err = 0x1234, 'ELFCompressionError'
            elif frame == 'trailing_garbage':
                stream += b'\x00\x11\x22'
            elif frame == 'truncated_stream':
                # cut in the middle; the oracle asks zlib itself how much such a stream yields
                stream = stream[:max(2, len(stream) // 2)]
                try:
                    got = zlib.decompressobj().decompress(stream)
                except zlib.error:
                    got = None
                if got is None or len(got) != size:
                    exp_err = 'ELFCompressionError' if got is not None else 'Exception'
            raw = f.chdr(ch_type, ch_size, ch_align) + stream
            flags |= eg.SHF_COMPRESSED
            compressed = True
            exp_size, exp_align = ch_size, ch_align
        elif comp == 'raw_looks_like_chdr':
            # not flagged compressed: bytes that look like a Chdr must be returned verbatim
            raw = (f.chdr(1, 5, 1) + zlib.compress(b'hello'))
            exp_data = raw
            exp_size = len(raw)
        sec = eg.Sec('.probe', stype, data=raw, flags=flags, align=sh_align, file_align=(1 if place == 'odd' else 8))
    tsec = None
    if twin != 'none' and place != 'at_eof' and not kind.startswith('nobits'):
        tpayload = _payload(SEED + 99, size + 7)
        traw = (f.chdr(1, size + 7, 1) + zlib.compress(tpayload, 6)) if compressed else tpayload
        tsec = eg.Sec('.probe', sec.type, data=traw, flags=(2 | (eg.SHF_COMPRESSED if compressed else 0)), align=1, file_align=4)
        if twin == 'before':
            img.add(tsec)
    img.add(sec)
    if tsec is not None and twin == 'after':
        img.add(tsec)
    if place == 'at_eof':
        img.sh_place = 'after_ehdr'
        # name table must precede: put it before the probe
        img.secs.remove(sec)
        img.add_shstrtab()
        sec.index = len(img.secs)
        img.secs.append(sec)
    else:
        img.add_shstrtab()
    data = img.encode()
    if place == 'at_eof' and not kind.startswith('nobits'):
        assert sec.offset + sec.occupies() == len(data)
    fails = []
    elf = guarded(_elf, data)
    if isinstance(elf, Raised):
        return Case([('ELFFile()', 'constructs', elf)], data, repr(elf))
    so = guarded(elf.get_section, sec.index)
    if isinstance(so, Raised):
        return Case([('get_section(probe)', 'section', so)], data, repr(so))
    obs = []
    for attr, ev in (('compressed', compressed), ('data_size', exp_size), ('data_alignment', exp_align)):
        g = guarded(getattr, so, attr)
        obs.append(g)
        if attr == 'compressed':
            if bool(g) != ev or isinstance(g, Raised):
                fails.append(('section.compressed', ev, g))
        elif g != ev:
            fails.append(('section.' + attr, ev, g))
    d = guarded(so.data)
    if exp_err:
        if not (isinstance(d, Raised) and d.isa(exp_err)):
            fails.append(('section.data()', 'raises ' + exp_err, d if isinstance(d, Raised) else 'returned %d bytes' % len(d)))
    elif isinstance(d, Raised) or d != exp_data:
        fails.append(('section.data()', '%d bytes %s..' % (len(exp_data), exp_data[:8].hex()),
                      d if isinstance(d, Raised) else '%d bytes %s..' % (len(d), bytes(d[:8]).hex())))
    d2 = guarded(so.data)       # repeatable
    if not exp_err and not isinstance(d, Raised) and d2 != d:
        fails.append(('section.data() second call', 'same bytes', 'different'))
    obs.append(core.digest(d if isinstance(d, (bytes, bytearray)) else repr(d)))
    if tsec is not None:
        t1 = guarded(lambda: elf.get_section(tsec.index).data())                # after the probe was read
        t2 = guarded(lambda: _elf(data).get_section(tsec.index).data())         # first thing asked of a fresh object
        for label, t in (('twin.data() after the probe', t1), ('twin.data() on a fresh object', t2)):
            if isinstance(t, Raised) or t != tpayload:
                fails.append((label, '%d bytes %s..' % (len(tpayload), tpayload[:8].hex()), t if isinstance(t, Raised) else '%d bytes %s..' % (len(t), bytes(t[:8]).hex())))
        if not exp_err:
            d3 = guarded(lambda: (lambda e: (e.get_section(tsec.index).data(), e.get_section(sec.index).data())[1])(_elf(data)))     # probe after the twin
            if isinstance(d3, Raised) or d3 != exp_data:
                fails.append(('section.data() after its same-name twin was read', '%d bytes %s..' % (len(exp_data), exp_data[:8].hex()),
                              d3 if isinstance(d3, Raised) else '%d bytes %s..' % (len(d3), bytes(d3[:8]).hex())))
    return Case(fails, data, repr(obs), nontrivial=exp_size > 0,
                sample={'class': cls, 'le': le, 'size': size, 'kind': kind, 'compression': comp, 'framing': frame, 'file_bytes': len(data)}, checks=5)


# ---- 2. string tables ----------------------------------------------------------------------

LENSETS = [[0, 1, 5, 63, 64, 65], [127, 128, 129, 300], [62, 0, 0, 64, 1], [191, 192, 193]]


def _strtab_gen():
    for cls in (64, 32):
        for le in (True, False):
            for li, _ in enumerate(LENSETS):
                for lead in (0, 1, 37):
                    for unterminated_tail in (False, True):
                        yield {'class': cls, 'le': le, 'lenset': li, 'lead_pad': lead, 'unterminated_tail': unterminated_tail}


def _strtab_check(desc):
    img = eg.Img(desc['class'], desc['le'], seed=SEED)
    img.null()
    if desc['lead_pad']:
        img.add(eg.Sec('.pad', 1, data=b'\x55' * desc['lead_pad'], file_align=1))
    tab = bytearray(b'\0')
    for i, n in enumerate(LENSETS[desc['lenset']]):
        if i == 2 and n:
            s = ('é€' * n).encode('utf-8')[:n]
            # keep valid UTF-8: cut at a character boundary
            while True:
                try:
                    s.decode('utf-8')
                    break
                except UnicodeDecodeError:
                    s = s[:-1]
            s = s + b'x' * (n - len(s))
        else:
            s = bytes(((j * 11 + n + i) % 94) + 33 for j in range(n))
        tab += s + b'\0'
    if desc['unterminated_tail']:
        tab += b'tail-without-nul'
    sec = img.add(eg.Sec('.strs', 3, data=bytes(tab), file_align=1))
    # make the table end exactly at EOF when the tail is unterminated, else follow it by the name table
    if desc['unterminated_tail']:
        img.sh_place = 'after_ehdr'
        img.secs.remove(sec)
        img.add_shstrtab()
        sec.index = len(img.secs)
        img.secs.append(sec)
    else:
        img.add_shstrtab()
    data = img.encode()
    fails = []
    elf = guarded(_elf, data)
    if isinstance(elf, Raised):
        return [('ELFFile()', 'constructs', elf)], True, repr(elf), data
    so = guarded(elf.get_section, sec.index)
    if isinstance(so, Raised) or type(so).__name__ != 'StringTableSection':
        return [('get_section(strtab)', 'StringTableSection', so)], True, repr(so), data
    nchecked = 0
    tb = bytes(tab)
    for o in range(len(tb)):
        e = tb.find(b'\0', o)
        if e < 0:
            # no terminator before the end of the file: the API returns '' (documented behaviour of the helper: None -> '')
            exp = ''
        else:
            exp = tb[o:e].decode('utf-8', errors='replace')
        g = guarded(so.get_string, o)
        nchecked += 1
        if g != exp:
            fails.append(('get_string(%d)' % o, exp[:60], g if isinstance(g, Raised) else str(g)[:60]))
            if len(fails) > 5:
                break
    return fails, True, nchecked, data


# ---- 3. segments: data and interpreter path --------------------------------------------------

def run_segment(ch):
    cls = ch.free('class', [64, 32])
    le = ch.free('data', [True, False])
    img = eg.Img(cls, le, seed=SEED)
    f = img.f
    plen = ch.pick('interp_len', [20, 1, 63, 64, 65, 200, 0])
    path = ('/' + 'lib/ld-é' * 40)[:plen] if plen else ''
    pb = path.encode('utf-8')
    extent = ch.pick('extent', ['typical', 'zero', 'one', 'to_eof', 'whole_file'])
    img.null()
    # the segment may be larger than the path: NUL padding after it (a loader patched in place) or more bytes of the file behind the terminator
    iext = ch.pick('interp_extent', ['exact', 'nul_padded', 'spans_more'])
    idata = pb + b'\0' + {'exact': b'', 'nul_padded': b'\0\0\0', 'spans_more': b'GNU\0tail-bytes'}[iext]
    interp = img.add(eg.Sec('.interp', 1, data=idata, flags=2, addr=0x400200, file_align=ch.pick('interp_align', [1, 8])))
    blob = img.add(eg.Sec('.blob', 1, data=eg.filler(SEED + 3, 150), flags=2, addr=0x400400, file_align=1))
    img.add_shstrtab()
    img.ph_place = ch.pick('ph_place', ['after_ehdr', 'after_data'])
    img.seg(eg.Seg(3, flags=4, of=interp))
    probe = img.seg(eg.Seg(ch.pick('p_type', [1, 4, 2, 0x6474e551, 0, 0x12345678]), flags=4, vaddr=0x400400))
    img.layout()
    total = img.total
    if extent == 'typical':
        probe.offset, probe.filesz = blob.offset + 3, 100
    elif extent == 'zero':
        probe.offset, probe.filesz = blob.offset, 0
    elif extent == 'one':
        probe.offset, probe.filesz = blob.offset + 149, 1
    elif extent == 'to_eof':
        probe.offset, probe.filesz = blob.offset, total - blob.offset
    else:
        probe.offset, probe.filesz = 0, total
    # the memory size says nothing about the file extent: larger (bss), zero (unmapped segments such as the PT_NOTE of a core dump), smaller
    mz = ch.pick('p_memsz', ['filesz', 'filesz+0x1000', 'zero', 'half'])
    probe.memsz = {'filesz': probe.filesz, 'filesz+0x1000': probe.filesz + 0x1000, 'zero': 0, 'half': probe.filesz // 2}[mz]
    data = img.encode()
    fails = []
    elf = guarded(_elf, data)
    if isinstance(elf, Raised):
        return Case([('ELFFile()', 'constructs', elf)], data, repr(elf))
    s0 = guarded(elf.get_segment, 0)
    g = guarded(lambda: s0.get_interp_name())
    if g != path:
        fails.append(('get_interp_name()', path, g))
    g0 = guarded(lambda: s0.data())
    if g0 != idata:
        fails.append(('interp.data()', idata, g0))
    s1 = guarded(elf.get_segment, 1)
    g1 = guarded(lambda: s1.data())
    exp = data[probe.offset:probe.offset + probe.filesz]
    if isinstance(g1, Raised) or g1 != exp:
        fails.append(('segment.data()', '%d bytes' % len(exp), g1 if isinstance(g1, Raised) else '%d bytes %s' % (len(g1), bytes(g1[:8]).hex())))
    return Case(fails, data, repr((g, core.digest(repr(g1)))), nontrivial=True,
                sample={'class': cls, 'le': le, 'interp': path[:30], 'extent': extent, 'file_bytes': len(data)}, checks=3)


# ---- 4. address_offsets ----------------------------------------------------------------------

LAYOUTS = {
    'one': [(0x1000, 0x400000, 0x200, 0x200)],
    'two_disjoint': [(0x1000, 0x400000, 0x100, 0x100), (0x2000, 0x600000, 0x80, 0x80)],
    'two_overlapping': [(0x1000, 0x400000, 0x100, 0x100), (0x1800, 0x400080, 0x100, 0x100)],
    'two_abutting': [(0x1000, 0x400000, 0x100, 0x100), (0x3000, 0x400100, 0x40, 0x40)],
    'filesz_lt_memsz': [(0x1000, 0x400000, 0x80, 0x200)],
    'zero_size': [(0x1000, 0x400000, 0, 0), (0x2000, 0x500000, 0x10, 0x10)],
    'none': [],
    'bias_differs': [(0x0, 0x400000, 0x300, 0x300), (0x300, 0x601300, 0x100, 0x180)],
    'identical_twice': [(0x1000, 0x400000, 0x100, 0x100), (0x1000, 0x400000, 0x100, 0x100)],
    'high_addresses': [(0x1000, 0xffff0000, 0x100, 0x100)],
}


def _addr_gen():
    for cls in (64, 32):
        for le in (True, False):
            for lay in LAYOUTS:
                for other in (False, True):
                    yield {'class': cls, 'le': le, 'layout': lay, 'non_load_decoys': other}


def _addr_check(desc):
    img = eg.Img(desc['class'], desc['le'], seed=SEED)
    img.null()
    img.add(eg.Sec('.blob', 1, data=b'\0' * 16))
    img.add_shstrtab()
    loads = LAYOUTS[desc['layout']]
    if desc['non_load_decoys']:
        # a PT_NOTE / PT_GNU_RELRO covering the same addresses must not contribute offsets
        img.seg(eg.Seg(4, 4, 0x5000, 0x400000, None, 0x1000, 0x1000, 4))
    for off, va, fs, ms in loads:
        img.seg(eg.Seg(1, 5, off, va, None, fs, ms, 0x1000))
        if desc['non_load_decoys']:
            img.seg(eg.Seg(0x6474e552, 4, off + 0x7000, va, None, fs, ms, 1))
    data = img.encode()
    elf = guarded(_elf, data)
    if isinstance(elf, Raised):
        return [('ELFFile()', 'constructs', elf)], True, repr(elf), data
    fails = []
    queries = set()
    pts = {0, 1, (1 << desc['class']) - 1}
    for off, va, fs, ms in loads:
        for base in (va, va + fs, va + ms):
            for d in (-2, -1, 0, 1, 2):
                if base + d >= 0:
                    pts.add(base + d)
        pts.add(va + fs // 2)
    for p in sorted(pts):
        for size in (1, 2, 0, 0x40, 0x80, 0x100, 0x101, 0x200, 0x201):
            queries.add((p, size))
        for off, va, fs, ms in loads:
            for e in (va + fs - 1, va + fs, va + fs + 1, va + ms):
                if e > p:
                    queries.add((p, e - p))
    n = 0
    outc = []
    for start, size in sorted(queries):
        exp = [start - va + off for off, va, fs, ms in loads if start >= va and start + size <= va + fs]
        g = guarded(lambda: list(elf.address_offsets(start, size)))
        n += 1
        if g != exp:
            fails.append(('address_offsets(%#x, %#x)' % (start, size), exp, g))
            if len(fails) > 5:
                break
        outc.append(len(exp))
    # default size argument = 1
    for off, va, fs, ms in loads[:1]:
        g = guarded(lambda: list(elf.address_offsets(va)))
        if g != [start - v + o for o, v, fz, mz in loads for start in [va] if va >= v and va + 1 <= v + fz]:
            fails.append(('address_offsets(%#x)' % va, 'size defaults to 1', g))
    return fails, bool(loads), (n, sum(outc)), data


# ---- 5. section_in_segment -------------------------------------------------------------------

SEG_TYPES = [1, 7, 0x6474e552, 6, 2, 4, 0x6474e551, 0x6474e550, 0, 0x12345678, 3, 0x6474e553]
SEG_EXTENTS = {'equal': (64, 64), 'filesz_lt_memsz': (32, 64), 'filesz0': (0, 64), 'both0': (0, 0), 'memsz_lt_filesz': (64, 32)}
SEC_FLAGS = [0, 2, 2 | 0x400, 0x400, 3, 6]
GEOMS = ['before', 'cross_start', 'at_start', 'inside', 'end_at_end', 'start_at_end', 'cross_end', 'after']
P_OFF, P_VA = 0x800, 0x400800


def _geom(base, extent, n, g):
    end = base + extent
    return {'before': base - 16, 'cross_start': base - 4, 'at_start': base, 'inside': base + 8, 'end_at_end': end - n,
            'start_at_end': end, 'cross_end': end - 4, 'after': end + 8}[g]


def _sis_cases():
    for cls in (64, 32):
        for le in (True, False):
            for pt in SEG_TYPES:
                for ext in SEG_EXTENTS:
                    yield (cls, le, pt, ext)


def _sis_build(cls, le, pt, ext):
    fs, ms = SEG_EXTENTS[ext]
    img = eg.Img(cls, le, seed=SEED)
    img.null()
    img.add(eg.Sec('.room', 1, data=b'\0' * 0x1000, offset=0x400))
    meta = []
    for fl in SEC_FLAGS:
        for st in (1, 8):
            for n in (0, 8):
                for ga in GEOMS:
                    for go in GEOMS:
                        addr = _geom(P_VA, ms, n, ga)
                        off = _geom(P_OFF, fs, n, go)
                        s = img.add(eg.Sec('.s', st, data=b'', size=n, flags=fl, addr=addr, offset=off))
                        meta.append((s.index, fl, st, n, addr, off))
    # compressed sections: containment is decided by the FILE extent (sh_size), never by the inflated size in the compression header
    for fl in (0x800, 0x802):
        for ch_size in (8, 0x1000):
            n = 32
            for ga in GEOMS:
                for go in GEOMS:
                    addr = _geom(P_VA, ms, n, ga)
                    off = _geom(P_OFF, fs, n, go)
                    body = img.f.chdr(1, ch_size, 1)
                    s = img.add(eg.Sec('.z', 1, data=body + b'\0' * (n - len(body)), flags=fl, addr=addr, offset=off))
                    meta.append((s.index, fl, 1, n, addr, off))
    img.add_shstrtab()
    img.seg(eg.Seg(pt, 4, P_OFF, P_VA, None, fs, ms, 8))
    return img, meta


def _sis_part(part, nparts):
    r = BulkResult()
    for ci, (cls, le, pt, ext) in enumerate(_sis_cases()):
        if ci % nparts != part:
            continue
        img, meta = _sis_build(cls, le, pt, ext)
        data = img.encode()
        fs, ms = SEG_EXTENTS[ext]
        elf = guarded(_elf, data)
        if isinstance(elf, Raised):
            r.fails.append(({'class': cls, 'le': le, 'p_type': pt, 'extent': ext}, 'ELFFile()', 'constructs', elf))
            continue
        seg = elf.get_segment(0)
        outs = 0
        for idx, fl, st, n, addr, off in meta:
            kw = dict(sh_type=st, sh_flags=fl, sh_addr=addr, sh_offset=off, sh_size=n, p_type=pt, p_offset=P_OFF, p_vaddr=P_VA, p_filesz=fs, p_memsz=ms)
            exp = insegment.restricted(**kw)
            inside = insegment.full(**kw) == exp
            g = guarded(lambda: seg.section_in_segment(elf.get_section(idx)))
            r.evaluations += 1
            if not inside:
                r.outside += 1
                continue
            r.nontrivial += 1
            if isinstance(g, Raised) or bool(g) != exp:
                r.fails.append(({'class': cls, 'le': le, 'p_type': pt, 'extent': ext, 'sh_flags': fl, 'sh_type': st, 'sh_size': n, 'sh_addr': addr, 'sh_offset': off},
                                'section_in_segment', exp, g))
            elif exp:
                outs += 1
        r.n_outcomes += 2 if 0 < outs else 1
        if r.sample is None:
            r.sample = {'class': cls, 'le': le, 'p_type': pt, 'extent': ext, 'sections_in_image': len(meta), 'contained': outs}
    r.n_states = r.evaluations
    return r


def _sis_replay(d):
    img, meta = _sis_build(d['class'], d['le'], d['p_type'], d['extent'])
    data = img.encode()
    elf = _elf(data)
    seg = elf.get_segment(0)
    fs, ms = SEG_EXTENTS[d['extent']]
    for idx, fl, st, n, addr, off in meta:
        if (fl, st, n, addr, off) == (d['sh_flags'], d['sh_type'], d['sh_size'], d['sh_addr'], d['sh_offset']):
            exp = insegment.restricted(sh_type=st, sh_flags=fl, sh_addr=addr, sh_offset=off, sh_size=n, p_type=d['p_type'], p_offset=P_OFF,
                                       p_vaddr=P_VA, p_filesz=fs, p_memsz=ms)
            g = guarded(lambda: seg.section_in_segment(elf.get_section(idx)))
            return [] if (not isinstance(g, Raised) and bool(g) == exp) else [('section_in_segment', exp, g)]
    return []


def spaces(tier, seed):
    global SEED
    SEED = seed
    k = 3 if tier == 'quick' else 9
    return [
        ChoiceSpace('section-data', run_section, k, rule='probe section: size {16,0,1,63,64,65,4096,70000} x placement {aligned,odd,ending at EOF} x kind {PROGBITS,NOBITS 0/1/1000,OS type} '
                    'x compression {none, zlib 6/0/1/9, uncompressed bytes that look like a Chdr} x framing {ok, ch_size+-1, ch_size 0, unknown ch_type, trailing bytes, truncated stream} '
                    'x ch_addralign x sh_addralign x class x order; non-trivial = logical size > 0'),
        ListSpace('string-table-every-offset', _strtab_gen, _strtab_check, rule='tables holding strings of lengths {0,1,5,63,64,65},{127,128,129,300},{62,0,0,64,1},{191,192,193} '
                  '(one valid multi-byte UTF-8) at file positions shifted by 0/1/37, with and without an unterminated tail at EOF; get_string(o) for EVERY offset o'),
        ChoiceSpace('segment-data-interp', run_segment, k, rule='interpreter path length {20,1,63,64,65,200,0} x alignment x segment extent {typical, 0, 1, to EOF, whole file} x p_memsz {= filesz, larger, 0, half} x p_type x table placement'),
        ListSpace('address-offsets', _addr_gen, _addr_check, rule='PT_LOAD layouts (one, disjoint, overlapping, abutting, filesz<memsz, zero-size, none, different biases, identical twice, high) x decoy '
                  'non-LOAD segments x every (start,size) over boundary points +-2 and sizes {0,1,2,0x40..0x201, to each end+-1}: complete product'),
        BulkSpace('section-in-segment', _sis_part, 64, _sis_replay, rule='complete product: 12 segment types x 5 extents x 6 flag sets x {PROGBITS,NOBITS} x size {0,8} x 8 address geometries x 8 offset geometries '
                  'x class x order, plus SHF_COMPRESSED sections (alloc / non-alloc, inflated size smaller / larger than the 32-byte file extent) x the same 64 geometries; non-trivial = inside the envelope (full binutils macro == the four named groups)'),
    ]
