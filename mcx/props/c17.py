"""C17 — symbolic names and numeric codes follow the ELF and DWARF registries.

E3: exhaustive comparison of every exported (table, name, value) pair whose name an
independent, vendored registry defines (glibc elf.h, LLVM 14 ELF.h / ELFRelocs/*.def /
DynamicTags.def / Dwarf.def), plus consistency of derived maps, plus an end-to-end pass
(a code placed in a generated file is reported under a registry name of that code).
"""
import json
import os

from mcx import core
from mcx.core import ListSpace, guarded, Raised

ID = 'C17'
LEVEL = 'exploration'
ASSUMPTIONS = ['the vendored extracts of glibc 2.36 elf.h and LLVM 14 BinaryFormat headers are the registries',
               'a value is accepted when at least one registry assigns it to the name (registries occasionally disagree)',
               'count pseudo-constants (*_NUM, DT_PROCNUM, *NUM) are excluded: they differ between header generations']
ROOT = os.path.dirname(os.path.dirname(os.path.dirname(os.path.abspath(__file__))))

_REG = None


def registry():
    global _REG
    if _REG is None:
        src = dict(json.load(open(os.path.join(ROOT, 'registry', 'registry.json')))['sources'])
        src.update(json.load(open(os.path.join(ROOT, 'registry', 'abi_documents.json')))['sources'])
        reg = {}
        for sname, d in src.items():
            for n, v in d.items():
                reg.setdefault(n, {}).setdefault(v, []).append(sname)
        _REG = reg
    return _REG


def _excluded(name):
    return (name.startswith('_') or name.endswith('_NUM') or name.endswith('NUM') or name == 'DT_PROCNUM')


def exported_pairs():
    """Every (table, name, value) the library exports.  Tables are discovered generically:
    module-level dicts str->int of the enum modules, int class attributes of constants
    classes, module-level ints of dwarf.constants, the DW_OP table."""
    import elftools.elf.enums as ee
    import elftools.dwarf.enums as de
    import elftools.elf.constants as ec
    import elftools.dwarf.constants as dc
    import elftools.dwarf.dwarf_expr as dx
    import elftools.ehabi.constants as hc
    out = []
    for mod in (ee, de):
        for tname in sorted(vars(mod)):
            t = getattr(mod, tname)
            if tname.startswith('_') or not isinstance(t, dict):
                continue
            for k in sorted(t, key=str):
                v = t[k]
                if isinstance(k, str) and isinstance(v, int) and not isinstance(v, bool):
                    out.append(('%s.%s' % (mod.__name__.split('.', 1)[1], tname), k, v))
    for cname in sorted(vars(ec)):
        c = getattr(ec, cname)
        if isinstance(c, type):
            for k in sorted(vars(c)):
                v = getattr(c, k)
                if isinstance(v, int) and not isinstance(v, bool) and not k.startswith('_'):
                    out.append(('elf.constants.' + cname, k, v))
    for k in sorted(vars(dc)):
        v = getattr(dc, k)
        if isinstance(v, int) and not isinstance(v, bool) and not k.startswith('_'):
            out.append(('dwarf.constants', k, v))
    for k in sorted(dx.DW_OP_name2opcode):
        out.append(('dwarf.dwarf_expr.DW_OP_name2opcode', k, dx.DW_OP_name2opcode[k]))
    return out


def _pairs_gen():
    for t, n, v in exported_pairs():
        yield [t, n, v]


def _pair_check(desc):
    t, n, v = desc
    reg = registry()
    if _excluded(n) or n not in reg:
        return [], False, 'unconfirmed'
    if v in reg[n]:
        return [], True, 'ok'
    return [('%s[%s]' % (t, n), sorted(reg[n]), v)], True, 'mismatch'


# ---- standard names stay exported ------------------------------------------------------

def _names_gen():
    for t, n in json.load(open(os.path.join(ROOT, 'registry', 'exported_confirmed_names.json')))['names']:
        yield [t, n]


_EXPORTED = None


def _name_check(desc):
    global _EXPORTED
    if _EXPORTED is None:
        _EXPORTED = {(t, n) for t, n, v in exported_pairs()}
    t, n = desc
    if (t, n) in _EXPORTED:
        return [], True, 'ok'
    return [('%s[%s]' % (t, n), 'still exported (a registry-defined name the library used to translate)', 'missing')], True, 'missing'


# ---- derived maps ---------------------------------------------------------------------

def _derived_gen():
    yield 'DW_FORM_raw2name'
    yield 'DW_OP_opcode2name'
    yield 'DW_OP_generated_ranges'
    yield 'CFA_name_map'
    yield 'D_TAG_merge'
    yield 'SH_TYPE_merge'
    yield 'P_TYPE_merge'


def _derived_check(which):
    import elftools.dwarf.enums as de
    import elftools.elf.enums as ee
    import elftools.dwarf.dwarf_expr as dx
    import elftools.dwarf.constants as dc
    import elftools.dwarf.callframe as cf
    fails = []
    n = 0
    if which == 'DW_FORM_raw2name':
        for k, v in de.ENUM_DW_FORM.items():
            if k.startswith('_'):
                continue
            n += 1
            if de.DW_FORM_raw2name.get(v) != k:
                # two names for one code are legitimate only if both map to it
                if de.ENUM_DW_FORM.get(de.DW_FORM_raw2name.get(v)) != v:
                    fails.append(('DW_FORM_raw2name[%#x]' % v, k, de.DW_FORM_raw2name.get(v)))
    elif which == 'DW_OP_opcode2name':
        for k, v in dx.DW_OP_name2opcode.items():
            n += 1
            back = dx.DW_OP_opcode2name.get(v)
            if back != k and k not in ('DW_OP_lo_user', 'DW_OP_hi_user') and dx.DW_OP_name2opcode.get(back) != v:
                fails.append(('DW_OP_opcode2name[%#x]' % v, k, back))
        # one-to-one except range markers
        names_by_code = {}
        for k, v in dx.DW_OP_name2opcode.items():
            if k not in ('DW_OP_lo_user', 'DW_OP_hi_user'):
                names_by_code.setdefault(v, []).append(k)
        for v, ks in sorted(names_by_code.items()):
            if len(ks) > 1:
                reg = registry()
                # aliases are fine only when a registry confirms each name at this code
                bad = [k for k in ks if k in reg and v not in reg[k]]
                if bad:
                    fails.append(('DW_OP code %#x names' % v, 'one name per code', ks))
    elif which == 'DW_OP_generated_ranges':
        for pre, base in (('DW_OP_lit', 0x30), ('DW_OP_reg', 0x50), ('DW_OP_breg', 0x70)):
            for i in range(32):
                n += 1
                if dx.DW_OP_name2opcode.get('%s%d' % (pre, i)) != base + i:
                    fails.append(('%s%d' % (pre, i), base + i, dx.DW_OP_name2opcode.get('%s%d' % (pre, i))))
    elif which == 'CFA_name_map':
        for k in sorted(vars(dc)):
            if k.startswith('DW_CFA_'):
                n += 1
                v = getattr(dc, k)
                got = guarded(cf.instruction_name, v)
                if got != k and getattr(dc, str(got), None) != v:
                    fails.append(('instruction_name(%#x)' % v, k, got))
    elif which == 'D_TAG_merge':
        for sub in ('ENUM_D_TAG_COMMON', 'ENUM_D_TAG_SOLARIS'):
            for k, v in getattr(ee, sub).items():
                n += 1
                if ee.ENUM_D_TAG.get(k) != v:
                    fails.append(('ENUM_D_TAG[%s]' % k, v, ee.ENUM_D_TAG.get(k)))
    elif which == 'SH_TYPE_merge':
        for t in ('AMD64', 'ARM', 'AARCH64', 'RISCV', 'MIPS'):
            d = getattr(ee, 'ENUM_SH_TYPE_' + t)
            for k, v in ee.ENUM_SH_TYPE_BASE.items():
                n += 1
                if d.get(k) != v:
                    fails.append(('ENUM_SH_TYPE_%s[%s]' % (t, k), v, d.get(k)))
    elif which == 'P_TYPE_merge':
        for t in ('ARM', 'AARCH64', 'MIPS', 'RISCV'):
            d = getattr(ee, 'ENUM_P_TYPE_' + t)
            for k, v in ee.ENUM_P_TYPE_BASE.items():
                n += 1
                if d.get(k) != v:
                    fails.append(('ENUM_P_TYPE_%s[%s]' % (t, k), v, d.get(k)))
    return fails, n > 0, (which, n)


def spaces(tier, seed):
    sp = [
        ListSpace('standard-names-still-exported', _names_gen, _name_check,
                  rule='every registry-confirmed (table, name) of the vendored snapshot registry/exported_confirmed_names.json is still exported by that table: a standard name that is renamed, '
                       'misspelt or dropped no longer selects its standard code'),
        ListSpace('exported-pairs-vs-registry', _pairs_gen, _pair_check,
                  rule='every (table, name, value) exported by elf/enums.py, dwarf/enums.py, elf/constants.py, dwarf/constants.py and DW_OP_name2opcode; '
                       'non-trivial = the name is defined by at least one vendored registry (others are counted as unconfirmed)'),
        ListSpace('derived-maps', _derived_gen, _derived_check, nparts=1,
                  rule='reverse form map, reverse DW_OP map (one name per code), generated lit/reg/breg ranges, CFA instruction names, merged per-machine tables'),
    ]
    try:
        from mcx.props import c17_e2e
        sp += c17_e2e.spaces(tier, seed)
    except ImportError:
        pass
    return sp


def extra_evidence(tier, seed, aggs):
    extra = {}
    if tier == 'thorough' and os.path.exists('/usr/include/elf.h') and os.path.isdir('/usr/lib/llvm-14/include/llvm/BinaryFormat'):
        import subprocess
        rc = subprocess.call(['python3', os.path.join(ROOT, 'tools', 'extract_registry.py'), '--check'])
        extra['vendored_registry_matches_installed_headers'] = (rc == 0)
    return extra
