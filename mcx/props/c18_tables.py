"""C18 space 2 — one synthesized image per value of the textual description tables.

The SET of probed values comes from the library's own enumerations (that is the quantifier:
"every key of every description table"); the EXPECTATION comes from GNU readelf only.
"""
import os
import struct

from mcx import core, elfgen as eg, elfwrap, dwarfgen as dg
from mcx.core import BulkSpace, BulkResult
from mcx.dwarfgen import F, TAG, AT, Abbrev, Die, Unit, DP, null
from mcx.props import c18
from mcx.ref import leb

SEED = 0


def _ints(d):
    return sorted({v for k, v in d.items() if isinstance(v, int) and not isinstance(v, bool) and not str(k).startswith('_')})


def base_image(cls=64, le=True, machine=62, etype=2, osabi=0):
    img = eg.Img(cls, le, machine=machine, etype=etype, osabi=osabi, seed=SEED)
    img.null()
    img.add(eg.Sec('.text', 1, data=b'\x90' * 16, flags=6, addr=0x401000, align=16))
    return img


def cases():
    """Yield (descriptor, builder) lazily; descriptor = [table, machine, value(s)]; builder() -> (image bytes, option, sections present)"""
    import elftools.elf.enums as ee
    import elftools.dwarf.enums as de
    import elftools.dwarf.constants as dc
    import elftools.dwarf.dwarf_expr as dx
    import elftools.elf.descriptions as ed
    import elftools.dwarf.descriptions as dd

    def keys(descr, *enums):
        out = set()
        for k in descr:
            for e in enums:
                if k in e and isinstance(e[k], int):
                    out.add(e[k])
            if isinstance(k, int):
                out.add(k)
        return sorted(out)
    M = {'x64': 62, 'ARM': 40, 'AARCH64': 183, 'MIPS': 8, 'RISCV': 243, 'i386': 3, 'PPC64': 21, 'PPC': 20, 'S390X': 22, 'LOONGARCH': 258}
    for v in keys(ed._DESCR_E_MACHINE, ee.ENUM_E_MACHINE):
        yield ['e_machine', 0, v]
    for v in keys(ed._DESCR_EI_OSABI, ee.ENUM_EI_OSABI):
        yield ['osabi', 0, v]
    # ARM EABI version 5 flag words: every combination of the flag bits both programs name (LE8, BE8, soft float, hard float)
    for bits in range(16):
        yield ['e_flags_arm5', 40, 0x05000000 | (0x00400000 if bits & 1 else 0) | (0x00800000 if bits & 2 else 0) | (0x200 if bits & 4 else 0) | (0x400 if bits & 8 else 0)]
    for v in keys(ed._DESCR_E_TYPE, ee.ENUM_E_TYPE):
        yield ['e_type', 0, v]
    for mname, tab in (('x64', ee.ENUM_SH_TYPE_AMD64), ('ARM', ee.ENUM_SH_TYPE_ARM), ('AARCH64', ee.ENUM_SH_TYPE_AARCH64), ('MIPS', ee.ENUM_SH_TYPE_MIPS),
                       ('RISCV', ee.ENUM_SH_TYPE_RISCV), ('i386', ee.ENUM_SH_TYPE_BASE)):
        for v in keys(ed._DESCR_SH_TYPE, tab):
            yield ['sh_type', M[mname], v]
    # the range rendering both programs implement for unnamed codes of the OS range (LOOS+0x..; the clone prints <unknown> in the processor and user ranges and so
    # does not claim those): a few codes, including the holes
    # between the named GNU types at the top of the OS range; compared although they are "fallbacks" (c18.compare keeps the range patterns for *_range probes)
    for v in (0x60000001, 0x60001234, 0x6ffffff4, 0x6ffffff8, 0x6ffffff9, 0x6ffffffb):
        yield ['sh_type_range', 62, v]
    for v in (0x60000001, 0x60001234, 0x6474e54f, 0x6fffffff):
        yield ['p_type_range', 62, v]
    known_sh = sorted(k for k in ed._DESCR_SH_FLAGS if isinstance(k, int))
    for bit in known_sh + [3, 6, 7, 0x30, 0x33, 0x403]:
        for m in (62, 40):
            if not (bit & 0x800):          # SHF_COMPRESSED needs a real compression header: C02/C11
                yield ['sh_flags', m, bit]
    for mname, tab in (('x64', ee.ENUM_P_TYPE_BASE), ('ARM', ee.ENUM_P_TYPE_ARM), ('AARCH64', ee.ENUM_P_TYPE_AARCH64), ('MIPS', ee.ENUM_P_TYPE_MIPS), ('RISCV', ee.ENUM_P_TYPE_RISCV)):
        for v in keys(ed._DESCR_P_TYPE, tab):
            yield ['p_type', M[mname], v]
    for v in range(8):
        yield ['p_flags', 62, v]
    for b in keys(ed._DESCR_ST_INFO_BIND, ee.ENUM_ST_INFO_BIND):
        for t in keys(ed._DESCR_ST_INFO_TYPE, ee.ENUM_ST_INFO_TYPE):
            yield ['st_info', 62, (b << 4) | t]
    for v in keys(ed._DESCR_ST_VISIBILITY, ee.ENUM_ST_VISIBILITY):
        yield ['st_other', 62, v]
    for v in keys(ed._DESCR_ST_SHNDX, ee.ENUM_ST_SHNDX) + [1]:
        yield ['st_shndx', 62, v]
    for mname, osabi, tab in (('x64', 0, ee.ENUM_D_TAG_COMMON), ('MIPS', 0, ee.ENUM_D_TAG_MIPS), ('AARCH64', 0, ee.ENUM_D_TAG_AARCH64), ('x64', 6, ee.ENUM_D_TAG_SOLARIS)):
        for v in _ints(tab):
            if v in ed._DESCR_D_TAG:
                yield ['d_tag', M[mname] * 1000 + osabi, v]
    for bit in _ints(ee.ENUM_DT_FLAGS) + [3, 0x1f]:
        yield ['DT_FLAGS', 62, bit]
    for bit in _ints(ee.ENUM_DT_FLAGS_1) + [3, 0x08000001]:
        yield ['DT_FLAGS_1', 62, bit]
    for v in keys(ed._DESCR_NOTE_N_TYPE, ee.ENUM_NOTE_N_TYPE):
        yield ['note_gnu', 62, v]
    for v in keys(ed._DESCR_NOTE_ABI_TAG_OS, ee.ENUM_NOTE_ABI_TAG_OS):
        yield ['note_abi_os', 62, v]
    for pt in (1, 2, 3, 0xc0000002, 0xc0008002, 0xc0010001, 0xc0010002, 0xc0000000, 0xc0000001, 0xe0000000):
        for val in (0, 1, 2, 3, 0xf, 0x100):
            yield ['note_property', 62 if pt != 0xc0000000 else 183, [pt, val]]
    for mname, tab in (('x64', ee.ENUM_RELOC_TYPE_x64), ('i386', ee.ENUM_RELOC_TYPE_i386), ('ARM', ee.ENUM_RELOC_TYPE_ARM), ('AARCH64', ee.ENUM_RELOC_TYPE_AARCH64),
                       ('MIPS', ee.ENUM_RELOC_TYPE_MIPS), ('PPC64', ee.ENUM_RELOC_TYPE_PPC64), ('PPC', ee.ENUM_RELOC_TYPE_PPC), ('S390X', ee.ENUM_RELOC_TYPE_S390X),
                       ('LOONGARCH', ee.ENUM_RELOC_TYPE_LOONGARCH)):
        for v in _ints(tab):
            yield ['reloc', M[mname], v]
    for v in (0, 1, 2, 3, 4, 7):
        yield ['ver_flags', 62, v]
    # ---- DWARF level
    for v in _ints(de.ENUM_DW_TAG):
        if v:
            yield ['DW_TAG', 62, v]
    for v in _ints(de.ENUM_DW_AT):
        if v:
            yield ['DW_AT', 62, [v, 'flag_present']]
    for name in ('DW_LANG', 'DW_ATE', 'DW_ACCESS', 'DW_VIS', 'DW_VIRTUALITY', 'DW_ID', 'DW_CC', 'DW_ORD', 'DW_INL', 'DW_DS', 'DW_END', 'DW_DEFAULTED'):
        vals = sorted({getattr(dc, k) for k in dir(dc) if k.startswith(name + '_') and isinstance(getattr(dc, k), int)})
        for v in vals:
            if v < 0x10000:
                yield [name, 62, v]
    for v in sorted(set(dx.DW_OP_name2opcode.values())):
        for a in (8, 4):
            yield ['DW_OP', 62 if a == 8 else 3, v]
    for v in sorted({getattr(dc, k) for k in dir(dc) if k.startswith('DW_CFA_')}):
        yield ['DW_CFA', 62, v]
    for fn in ('ref1', 'ref2', 'ref4', 'ref8', 'ref_udata', 'ref_addr'):
        yield ['DW_FORM_ref_unit2', 62, fn]
    # operations whose operand width follows the DWARF format, in a file that mixes a 32-bit-format and a 64-bit-format unit (either order)
    for v in (0x9a, 0xa0, 0xf2, 0x03, 0x91):
        for order in ('32-64', '64-32'):
            yield ['DW_OP_mixed', 62, [v, order]]


AT_FOR = {'DW_LANG': (0x13, 'data2'), 'DW_ATE': (0x3e, 'data1'), 'DW_ACCESS': (0x32, 'data1'), 'DW_VIS': (0x17, 'data1'), 'DW_VIRTUALITY': (0x4c, 'data1'),
          'DW_ID': (0x42, 'data1'), 'DW_CC': (0x36, 'data1'), 'DW_ORD': (0x09, 'data1'), 'DW_INL': (0x20, 'data1'), 'DW_DS': (0x5e, 'data1'), 'DW_END': (0x65, 'data1'),
          'DW_DEFAULTED': (0x8b, 'data1')}


def _dwarf_image(unit_dies_builder, cls=64, le=True, version=4, machine=62, extra_secs=None):
    dp = DP(le, 32, cls // 8, version)
    root = unit_dies_builder(dp)
    secs = dg.Assembly([Unit(dp, root)], le=le).assemble()
    out = {k: secs[k] for k in ('.debug_info', '.debug_abbrev', '.debug_str') if secs.get(k)}
    if extra_secs:
        out.update(extra_secs)
    data, _ = elfwrap.wrap(out, cls, le, machine=machine)
    return data


def build(desc):
    """-> (image bytes, option string, sections present)"""
    from mcx.ref import exprtable as X, cfi
    table, m, v = desc
    if table.endswith('_range'):
        table = table[:-6]
    le = True
    if table == 'e_machine':
        img = base_image(machine=v)
        img.add_shstrtab()
        return img.encode(), '-h', []
    if table == 'osabi':
        img = base_image(osabi=v)
        img.add_shstrtab()
        return img.encode(), '-h', []
    if table == 'e_type':
        img = base_image(etype=v)
        img.add_shstrtab()
        return img.encode(), '-h', []
    cls = 64 if m not in (40, 3, 20) and table != 'DW_OP' or (table == 'DW_OP' and m == 62) else 32
    if table == 'e_flags_arm5':
        img = base_image(32, le, machine=40)
        img.flags = v
        img.add_shstrtab()
        return img.encode(), '-h', []
    if table in ('sh_type', 'sh_flags'):
        img = base_image(cls, le, machine=m)
        if table == 'sh_type':
            f = img.f
            strs = img.add(eg.Sec('.strtab', 3, data=b'\0s\0'))
            symt = img.add(eg.Sec('.symtab', 2, data=f.sym(0, 0, 0, 0, 0, 0), link=strs.index, info=1, entsize=f.symsize, align=8))
            ent = {2: f.symsize, 11: f.symsize, 0x6ffffff3: f.symsize, 9: f.relsize, 4: f.relasize, 6: f.dynsize, 17: 4, 18: 4, 19: f.wordsize, 5: 4, 0x6fffffff: 2,
                   0x6ffffffc: 4}.get(v, 0)
            link = strs.index if v in (2, 11, 6, 0x6ffffff3, 0x6ffffffe, 0x6ffffffd) else (symt.index if v in (5, 9, 4, 17, 18, 0x6ffffff6, 0x6fffffff, 0x6ffffffc) else 0)
            from mcx.ref import hashes
            pdata = {5: hashes.build_sysv([''], 1, le), 0x6ffffff6: hashes.build_gnu([''], 1, 1, 1, 6, cls, le), 0x70000003: (b'A' if m in (40, 243) else b'')}.get(v, b'')
            img.add(eg.Sec('.probe', v, data=pdata, flags=0, addr=0, link=link, info=(1 if v in (9, 4) else 0), entsize=ent, align=4))
        else:
            img.add(eg.Sec('.probe', 1, data=b'\0' * 16, flags=v, addr=0x402000, align=4))
        img.add_shstrtab()
        return img.encode(), '-e', []
    if table in ('p_type', 'p_flags'):
        img = base_image(cls, le, machine=m)
        img.add_shstrtab()
        img.seg(eg.Seg(1, 5, of=img.secs[1], align=0x1000))
        img.seg(eg.Seg(v if table == 'p_type' else 1, (4 if table == 'p_type' else v), offset=0, vaddr=0x500000, filesz=0, memsz=0x10, align=8))
        return img.encode(), '-e', []
    if table in ('st_info', 'st_other', 'st_shndx'):
        img = base_image(cls, le, machine=m)
        f = img.f
        strs = img.add(eg.Sec('.strtab', 3, data=b'\0probe\0'))
        info, other, shndx = 0x12, 0, 1
        if table == 'st_info':
            info = v
        elif table == 'st_other':
            other = v
        else:
            shndx = v
        img.add(eg.Sec('.symtab', 2, data=f.sym(0, 0, 0, 0, 0, 0) + f.sym(1, 0x401000, 8, info, other, shndx), link=strs.index, info=1 if (info >> 4) else 2,
                       entsize=f.symsize, align=8))
        img.add_shstrtab()
        return img.encode(), '-s', []
    if table in ('d_tag', 'DT_FLAGS', 'DT_FLAGS_1'):
        machine, osabi = (m // 1000, m % 1000) if table == 'd_tag' else (m, 0)
        cls = 64
        img = base_image(cls, le, machine=machine, osabi=osabi)
        f = img.f
        dynstr = img.add(eg.Sec('.dynstr', 3, data=b'\0libc.so.6\0', flags=2, addr=0x400500))
        tag, val = (v, 1) if table == 'd_tag' else ((30, v) if table == 'DT_FLAGS' else (0x6ffffffb, v))
        if tag >= (1 << 63):
            tag -= 1 << 64
        tags = [(tag, val), (5, 0x400500), (10, 11), (0, 0)]
        dyn = img.add(eg.Sec('.dynamic', 6, data=b''.join(f.dyn(t, x) for t, x in tags), flags=3, addr=0x403000, link=dynstr.index, entsize=f.dynsize, align=8))
        img.add_shstrtab()
        img.seg(eg.Seg(1, 5, offset=0, vaddr=0x400000, filesz=0x100, memsz=0x100, align=0x1000))
        img.seg(eg.Seg(2, 6, of=dyn))
        return img.encode(), '-d', []
    if table in ('note_gnu', 'note_abi_os', 'note_property'):
        img = base_image(cls, le, machine=m)
        o = img.f.o
        if table == 'note_gnu':
            desc_b = {1: struct.pack(o + 'IIII', 0, 3, 2, 0), 3: bytes(range(20)), 4: b'gold 1.16', 5: b''}.get(v, b'\1\2\3\4')
            nt = v
        elif table == 'note_abi_os':
            desc_b, nt = struct.pack(o + 'IIII', v, 2, 6, 32), 1
        else:
            pt, val = v
            pd = struct.pack(o + 'I', val)
            rec = struct.pack(o + 'II', pt, len(pd)) + pd
            rec += b'\0' * ((-len(rec)) % (8 if cls == 64 else 4))
            desc_b, nt = rec, 5
        nd = struct.pack(o + 'III', 4, len(desc_b), nt) + b'GNU\0' + desc_b + b'\0' * ((-len(desc_b)) % 4)
        note = img.add(eg.Sec('.note.gnu.property' if nt == 5 else '.note.probe', 7, data=nd, flags=2, addr=0x400240, align=(8 if nt == 5 and cls == 64 else 4), file_align=8))
        img.add_shstrtab()
        img.seg(eg.Seg(4, 4, of=note, align=note.align))
        return img.encode(), '-n', []
    if table == 'reloc':
        img = base_image(cls, le if m not in (22,) else False, machine=m, etype=1)
        f = img.f
        strs = img.add(eg.Sec('.strtab', 3, data=b'\0sym\0'))
        symtab = img.add(eg.Sec('.symtab', 2, data=f.sym(0, 0, 0, 0, 0, 0) + f.sym(1, 0x10, 0, 0x10, 0, 1), link=strs.index, info=1, entsize=f.symsize, align=8))
        rela = m not in (3, 40)
        if m == 8 and cls == 64:
            body = f.addr(0x8) + f.word(1) + bytes([0, 0, 0, v & 0xff]) + f.pack(f.SA, 4)
        else:
            body = f.rela(0x8, f.r_info(1, v), 4) if rela else f.rel(0x8, f.r_info(1, v))
        img.add(eg.Sec('.rela.text' if rela else '.rel.text', 4 if rela else 9, data=body, link=symtab.index, info=1, entsize=f.relasize if rela else f.relsize, align=8, flags=0x40))
        img.add_shstrtab()
        return img.encode(), '-r', []
    if table == 'ver_flags':
        img = base_image(64, le)
        f = img.f
        o = f.o
        st = eg.StrTab()
        n1, n2, lib = st.add('VER_1'), st.add('VER_2'), st.add('libv.so')
        dynstr = img.add(eg.Sec('.dynstr', 3, data=st.bytes(), flags=2, addr=0x400500))
        dynsym = img.add(eg.Sec('.dynsym', 11, data=f.sym(0, 0, 0, 0, 0, 0) + f.sym(n1, 0x401000, 0, 0x12, 0, 1), flags=2, addr=0x400400, link=dynstr.index, info=1,
                                entsize=f.symsize, align=8))
        img.add(eg.Sec('.gnu.version', 0x6fffffff, data=struct.pack(o + 'HH', 0, 2), flags=2, addr=0x400580, link=dynsym.index, entsize=2, align=2))
        vd = struct.pack(o + 'HHHHIII', 1, v, 2, 1, 0x0d696910, 20, 0) + struct.pack(o + 'II', n1, 0)
        img.add(eg.Sec('.gnu.version_d', 0x6ffffffd, data=vd, flags=2, addr=0x4005a0, link=dynstr.index, info=1, align=8, file_align=8))
        vn = struct.pack(o + 'HHIII', 1, 1, lib, 16, 0) + struct.pack(o + 'IHHII', 0x09691a75, v, 3, n2, 0)
        img.add(eg.Sec('.gnu.version_r', 0x6ffffffe, data=vn, flags=2, addr=0x4005e0, link=dynstr.index, info=1, align=8, file_align=8))
        img.add_shstrtab()
        img.seg(eg.Seg(1, 5, offset=0, vaddr=0x400000, filesz=0x1000, memsz=0x1000, align=0x1000))
        return img.encode(), '-V', []
    # ---- DWARF
    if table == 'DW_TAG':
        def mk(dp):
            return Die(Abbrev(1, TAG['compile_unit'], True, [(AT['name'], F['string'], None)]), [b'a.c'],
                       [Die(Abbrev(2, v, False, [(AT['name'], F['string'], None)]), [b'probe']), null()])
        return _dwarf_image(mk), '--debug-dump=info', ['.debug_info']
    if table == 'DW_AT':
        at, form = v

        LOC = (0x02, 0x19, 0x1c, 0x2a, 0x38, 0x40, 0x46, 0x48, 0x4a, 0x4d, 0x4e, 0x4f, 0x50, 0x51, 0x7e, 0x7f, 0x80, 0x83, 0x84, 0x85, 0x2111, 0x2112, 0x2113, 0x2114,
               0x22, 0x2f, 0x37, 0x0b, 0x0c, 0x0d, 0x2e, 0x51, 0x71, 0x75, 0x0a)

        def mk(dp):
            if at in LOC:
                spec, val = (at, F['exprloc'], None), b'\x96'
            else:
                spec, val = (at, F[form], None), None
            return Die(Abbrev(1, TAG['compile_unit'], True, [(AT['name'], F['string'], None)]), [b'a.c'],
                       [Die(Abbrev(2, TAG['variable'], False, [spec]), [val]), null()])
        return _dwarf_image(mk), '--debug-dump=info', ['.debug_info']
    if table in AT_FOR:
        at, form = AT_FOR[table]

        def mk(dp):
            return Die(Abbrev(1, TAG['compile_unit'], True, [(AT['name'], F['string'], None)]), [b'a.c'],
                       [Die(Abbrev(2, TAG['subprogram'], False, [(at, F[form], None)]), [v]), null()])
        return _dwarf_image(mk, version=5 if table in ('DW_DEFAULTED',) else 4), '--debug-dump=info', ['.debug_info']
    if table == 'DW_OP':
        acls = 64 if m == 62 else 32
        if v not in X.OPS:
            return None
        p = X.P(True, 32, acls // 8)
        small = {'u1': 4, 's1': -2, 'u2': 0x102, 's2': -3, 'u4': 0x10203, 's4': -70000, 'u8': 0x1020304050, 's8': -(1 << 40), 'uleb': 5, 'sleb': -8, 'addr': 0x401000,
                 'offset': 0x0b, 'block': [1, 2, 3], 'tblock': [9, 8], 'expr': [(0x31, []), (0x91, [-8])], 'wasm': (1, 5)}
        expr = X.enc_expr([(v, [small[k] for k in X.OPS[v][1]])], p)

        def mk(dp):
            return Die(Abbrev(1, TAG['compile_unit'], True, [(AT['name'], F['string'], None)]), [b'a.c'],
                       [Die(Abbrev(3, TAG['subprogram'], True, [(AT['name'], F['string'], None), (AT['frame_base'], F['exprloc'], None)]), [b'f', b'\x9c'],
                            [Die(Abbrev(2, TAG['variable'], False, [(AT['location'], F['exprloc'], None)]), [expr]), null()]), null()])
        return _dwarf_image(mk, cls=acls, machine=m), '--debug-dump=info', ['.debug_info']
    if table == 'DW_OP_mixed':
        op, order = v
        small = {'u1': 4, 's1': -2, 'u2': 0x102, 's2': -3, 'u4': 0x10203, 's4': -70000, 'u8': 0x1020304050, 's8': -(1 << 40), 'uleb': 5, 'sleb': -8, 'addr': 0x401000,
                 'offset': 0x0b, 'block': [1, 2, 3], 'tblock': [9, 8], 'expr': [(0x31, []), (0x91, [-8])], 'wasm': (1, 5)}

        def unit(fmt, code0):
            p = X.P(True, fmt, 8)
            expr = X.enc_expr([(op, [small[k] for k in X.OPS[op][1]])], p)
            dp = DP(True, fmt, 8, 4)
            return Unit(dp, Die(Abbrev(code0, TAG['compile_unit'], True, [(AT['name'], F['string'], None)]), [b'a%d.c' % fmt],
                                [Die(Abbrev(code0 + 2, TAG['subprogram'], True, [(AT['name'], F['string'], None), (AT['frame_base'], F['exprloc'], None)]), [b'f', b'\x9c'],
                                     [Die(Abbrev(code0 + 1, TAG['variable'], False, [(AT['location'], F['exprloc'], None)]), [expr]), null()]), null()]))
        units = [unit(32, 1), unit(64, 4)] if order == '32-64' else [unit(64, 1), unit(32, 4)]
        secs = dg.Assembly(units, le=True).assemble()
        out = {k: secs[k] for k in ('.debug_info', '.debug_abbrev', '.debug_str') if secs.get(k)}
        data, _ = elfwrap.wrap(out, 64, True, machine=62)
        return data, '--debug-dump=info', ['.debug_info']
    if table == 'DW_FORM_ref_unit2':
        # a reference attribute in a unit that does NOT start at offset 0 of .debug_info (unit-relative forms are printed as section offsets: value + unit offset)
        def unit(code0, name, with_ref):
            dp = DP(True, 32, 8, 4)
            kids = [Die(Abbrev(code0 + 1, TAG['base_type'], False, [(AT['name'], F['string'], None), (AT['byte_size'], F['data1'], None)]), [b'int', 4], label=name + '_int')]
            if with_ref:
                kids.append(Die(Abbrev(code0 + 2, TAG['variable'], False, [(AT['name'], F['string'], None), (AT['type'], F[v], None)]), [b'v', ('ref', name + '_int')]))
            return Unit(dp, Die(Abbrev(code0, TAG['compile_unit'], True, [(AT['name'], F['string'], None)]), [name.encode() + b'.c'], kids + [null()]))
        secs = dg.Assembly([unit(1, 'first', False), unit(4, 'second', True)], le=True).assemble()
        out = {k: secs[k] for k in ('.debug_info', '.debug_abbrev', '.debug_str') if secs.get(k)}
        data, _ = elfwrap.wrap(out, 64, True, machine=62)
        return data, '--debug-dump=info', ['.debug_info']
    if table == 'DW_CFA':
        from mcx.props import c06
        dp = DP(True, 32, 8, 4)
        byop = {}
        for ins in c06.alphabet(False):
            b, (op, args) = cfi.enc_instr(ins, dp)
            key = op & 0xc0 if op & 0xc0 else op
            byop.setdefault(key, ins)
        if v not in byop:
            return None
        seq = [('advance_loc', 4), byop[v], ('advance_loc', 2)]
        if byop[v][0] == 'restore_state':
            seq = [('remember_state',), ('advance_loc', 4), byop[v]]
        data, _ = c06.build_debug_frame(dp, {'version': 3, 'align': 8}, c06.PROLOGUES['default'], [seq, []])
        secs = dg.Assembly([Unit(DP(True, 32, 8, 4), Die(Abbrev(1, TAG['compile_unit'], False, [(AT['name'], F['string'], None)]), [b'a.c']))], le=True).assemble()
        img, _ = elfwrap.wrap({'.debug_info': secs['.debug_info'], '.debug_abbrev': secs['.debug_abbrev'], '.debug_frame': data}, 64, True)
        return img, '--debug-dump=frames --debug-dump=frames-interp', ['.debug_frame']
    raise core.HarnessError('unknown table %s' % table)


def _run(desc):
    b = build(desc)
    if b is None:
        return 'no-builder', ''
    data, option, present = b
    path = os.path.join(c18.SCRATCH, 'c18t.%d.elf' % os.getpid())
    with open(path, 'wb') as fh:
        fh.write(data)
    try:
        worst = ('match', '')
        for opt in option.split(' --debug-dump=frames-interp') if False else ([option] if 'frames ' not in option else ['--debug-dump=frames', '--debug-dump=frames-interp']):
            st, detail = c18.compare(opt, path, image_has=present, probe=desc)
            if st in ('mismatch', 'ours-failed'):
                return st, '%s: %s' % (opt, detail)
            if st != 'match':
                worst = (st, detail)
        return worst
    finally:
        try:
            os.unlink(path)
        except OSError:
            pass


def _part(part, nparts):
    r = BulkResult()
    outs = {}
    for i, desc in enumerate(cases()):
        if i % nparts != part:
            continue
        st, detail = _run(desc)
        r.evaluations += 1
        outs[st] = outs.get(st, 0) + 1
        if st == 'match':
            r.nontrivial += 1
        elif st in ('oracle-skip', 'drift-skip', 'no-builder'):
            r.outside += 1
        else:
            r.fails.append((desc, '%s value %r (machine %s)' % (desc[0], desc[2], desc[1]), 'output equal to GNU readelf 2.40', detail))
        if r.sample is None and st == 'match' and part == 2:
            r.sample = {'probe': desc, 'status': st}
    r.n_states = r.evaluations
    r.outcomes = {core.digest(k) for k in outs}
    return r


def _replay(desc):
    st, detail = _run(desc)
    return [('%s value %r' % (desc[0], desc[2]), 'output equal to GNU readelf 2.40', detail)] if st in ('mismatch', 'ours-failed') else []


def spaces(tier, seed):
    global SEED
    SEED = seed
    sp = BulkSpace('description-tables', _part, 128, _replay,
                      rule='one synthesized image per value of: e_machine, OS ABI, e_type, sh_type (per machine table), sh_flags bits, p_type (per machine), p_flags, st_info (all 256), st_other, '
                           'st_shndx, d_tag (common, MIPS, AArch64, Solaris), DT_FLAGS / DT_FLAGS_1 bits, GNU note types, ABI-tag OS, GNU property types x values, relocation types of 9 machines, '
                           'version flags, DW_TAG, DW_AT x {data1,string}, DW_LANG/ATE/ACCESS/VIS/VIRTUALITY/ID/CC/ORD/INL/DS/END/DEFAULTED, every DW_OP x address size, every DW_CFA; dumped with the option '
                           'that prints it; non-trivial = compared and matched; outside = oracle warns/fails or prints its unknown fallback')
    sp.report_all = True        # every probed value is its own finding: no de-duplication across values
    return [sp]
