"""C18 space 3 — generated files from the model generators of C01-C15, restricted to the envelope.

The generators are the ones the other properties explore (same choice points, same bounds); `mcx.capture`
stops each of them at its hand-off point and the image goes to both readelf implementations instead.
The envelope is decided by the oracle: a pair on which GNU readelf warns, fails or prints one of its
unknown-value fallbacks is outside (counted, not compared).
"""
import os

from mcx import core, capture, elfwrap
from mcx.core import Case, ChoiceSpace, ListSpace
from mcx.props import c18

SEED = 0


def _gens():
    from mcx.props import c01, c03, c04, c07, c08, c09, c13, c14, c15, c20
    return [
        ('c01-headers', c01.run, ['-e']),
        ('c03-symbols', c03.run_tables, ['-s']),
        ('c08-reloc-tables', c08.run_tables, ['-r']),
        ('c08-reloc-apply', c08.run_apply, ['-r']),
        ('c09-dynamic', c09.run, ['-d', '-h']),
        ('c14-notes', c14.run_notes, ['-n']),
        ('c15-versions', c15.run_versions, ['-V']),
        ('c20-attributes', c20.run_attrs, ['--arch-specific']),
        ('c04-die-trees', c04.run, ['--debug-dump=info']),
        ('c07-lists', c07.run, ['--debug-dump=loc', '--debug-dump=Ranges']),
        ('c13-lookup', c13.run, ['--debug-dump=aranges', '--debug-dump=pubnames', '--debug-dump=pubtypes']),
    ]


_GENS = None


def to_image(cap):
    """Captured hand-off -> (ELF image bytes, names of the sections present)"""
    if cap.kind == 'elf':
        data, img = cap.payload
        return data, [s.name for s in img.secs]
    sections, le, addr, arch, addresses = cap.payload
    cls = 64 if addr == 8 else 32
    secs = {k: v for k, v in sections.items() if v is not None}
    if '.debug_info' not in secs and any(k.startswith('.debug_') for k in secs):
        # the clone dumps DWARF sections only for files that have a .debug_info section: give bare tables a minimal unit
        from mcx import dwarfgen as dg
        from mcx.dwarfgen import DP, Abbrev, Die, Unit, TAG, AT, F
        mini = dg.Assembly([Unit(DP(le, 32, addr, 4), Die(Abbrev(1, TAG['compile_unit'], False, [(AT['name'], F['string'], None)]), [b'a.c']))], le=le).assemble()
        secs['.debug_info'], secs['.debug_abbrev'] = mini['.debug_info'], mini['.debug_abbrev']
    data, _ = elfwrap.wrap(secs, cls, le, machine=62 if cls == 64 else 3, etype=2, addresses=addresses)
    return data, list(secs)


def _compare_all(tag, data, present, opts):
    path = os.path.join(c18.SCRATCH, 'c18g.%d.elf' % os.getpid())
    with open(path, 'wb') as fh:
        fh.write(data)
    fails, sts = [], []
    try:
        for opt in opts:
            if opt.startswith('--debug-dump=') and not _has_for(opt, present):
                sts.append('no-section')
                continue
            st, detail = c18.compare(opt, path, image_has=present, probe=True)
            sts.append(st)
            if st in ('mismatch', 'ours-failed'):
                fails.append(('%s %s' % (tag, opt), 'output equal to GNU readelf 2.40', detail))
    finally:
        try:
            os.unlink(path)
        except OSError:
            pass
    return fails, sts


NEEDS = {'info': ('.debug_info',), 'decodedline': ('.debug_line',), 'frames': ('.debug_frame', '.eh_frame'), 'frames-interp': ('.debug_frame', '.eh_frame'),
         'aranges': ('.debug_aranges',), 'pubnames': ('.debug_pubnames',), 'pubtypes': ('.debug_pubtypes',), 'loc': ('.debug_loc', '.debug_loclists'),
         'Ranges': ('.debug_ranges', '.debug_rnglists')}


def _has_for(opt, present):
    return any(s in present for s in NEEDS[opt.split('=')[1]])


def run_generated(ch):
    global _GENS
    if _GENS is None:
        _GENS = _gens()
    gi = ch.free('generator', list(range(len(_GENS))))
    name, fn, opts = _GENS[gi]
    cap = capture.grab(fn, ch)
    if cap is None:
        return Case([], ('none', gi, tuple(ch.choices())).__repr__(), 'no-image', nontrivial=False, envelope=False)
    data, present = to_image(cap)
    fails, sts = _compare_all(name, data, present, opts)
    matched = any(s == 'match' for s in sts)
    return Case(fails, data, repr((name, sts)), nontrivial=matched, envelope=matched or bool(fails), checks=len(opts),
                sample={'generator': name, 'bytes': len(data), 'options': opts, 'status': sts} if matched else None)


# ---- line programs and call-frame tables (bulk families of C05 / C06) ------------------------------------------

CFI_NOT_SUPPORTED = ('val_offset', 'val_offset_sf', 'val_expression', 'negate_ra_state')      # each is a recorded finding of the description-table space


def _cfi_in_envelope(d):
    """What compilers emit and the clone claims: a CIE that defines the CFA by register, operations the clone renders like GNU
    (the others are findings of space 2), registers the architecture table names."""
    if d['prologue'] != 'default':
        return False
    if d['shape'].get('order') in ('CFCF', 'C1C2F1F2', 'FC'):
        return False        # second CIEs reuse the probed sequence as their initial instructions; FDE before its CIE is GNU readelf bug #31973 (the project documents it)
    if d['shape'].get('ra', 16) > 66:
        return False
    for ins in d['seq']:
        if ins[0] in CFI_NOT_SUPPORTED:
            return False
        if ins[0] not in ('def_cfa_offset', 'def_cfa_offset_sf', 'advance_loc', 'advance_loc1', 'advance_loc2', 'advance_loc4', 'set_loc', 'GNU_args_size', 'def_cfa_expression') \
                and len(ins) > 1 and isinstance(ins[1], int) and ins[1] > 66:
            return False
    return True


def _lc_gen(tier):
    from mcx.props import c05, c06
    quick = tier == 'quick'

    def gen():
        for desc, hv, seq, pi, swap in c05._cases('quick'):
            if len(seq) > (1 if quick else 2):
                continue
            if pi not in (0, 7) or (len(seq) == 2 and pi != 0):
                continue
            yield ['line', desc]
        for d in c06._cases('quick'):
            n = len(d['seq'])
            if not _cfi_in_envelope(d):
                continue
            if d['kind'] == 'debug':
                if n > (1 if quick else 2) or d['param'] not in ((0,) if quick else (0, 7)):
                    continue
            else:
                if any((d['shape'].get(k, 0) & 0x0f) in (0x01, 0x09) for k in ('fde_enc', 'lsda_enc', 'pers_enc')):
                    continue        # oracle limitation: GNU readelf 2.40 reads LEB128-encoded .eh_frame pointers as fixed-size fields
                if quick and n > 0:
                    continue
                if n and (d['param'] != 0 or d['address'] != 0x1000):
                    continue
            yield ['cfi', d]
    return gen


def _lc_check(item):
    from mcx.props import c05, c06
    kind, d = item
    if kind == 'line':
        V = dict(c05.header_variants('quick'))
        cap = capture.grab(c05.check_case, V[d['header']], tuple(d['seq']), d['param'], d['swap'])
        opts = ['--debug-dump=decodedline']
    else:
        # state changes follow an advance (as in compiled code) and are followed by one, so that every change shows in a row of its own
        cap = capture.grab(c06._run_desc, dict(d, seq=[['advance_loc', 4]] + list(d['seq']) + [['advance_loc', 2]]))
        opts = ['--debug-dump=frames', '--debug-dump=frames-interp']
    if cap is None:
        return [], False, 'no-image', repr(item).encode(), True
    data, present = to_image(cap)
    fails, sts = _compare_all(kind, data, present, opts)
    matched = any(s == 'match' for s in sts)
    return fails, matched, repr(sts), data, not (matched or fails)


# ---- hex and string dumps -------------------------------------------------------------------------------------

DUMP_CONTENTS = [b'', b'A', bytes(range(0x41, 0x50)), bytes(range(0x41, 0x51)), bytes(range(0x41, 0x52)), bytes(range(33)), b'hello\0world\0', b'\thelp text\0  indented\0tail',
                 b'\0\0abc\0', b'ab\x7fcd\0\x01\x02xyz\0', b'x' * 100 + b'\0' + b'y' * 3, b'%s %d\n\0\r\nline\0', b'no terminator']


def _dump_gen():
    for ci, content in enumerate(DUMP_CONTENTS):
        for cls in (64, 32):
            for le in (True, False):
                for addr in (0, 0x401230):
                    for opt in ('-x', '-p'):
                        yield [ci, cls, le, addr, opt]
    # the dumped section is the target (sh_info) of a relocation section: both programs then print a note that the relocations have not been applied - in
    # relocatable objects and in linked files alike
    for ci in (2, 6):
        for cls in (64, 32):
            for le in (True, False):
                for etype in (1, 2, 3):
                    for opt in ('-x', '-p'):
                        yield [ci, cls, le, 0x401230 if etype != 1 else 0, opt, etype]


def _dump_check(desc):
    from mcx import elfgen as eg
    ci, cls, le, addr, opt = desc[:5]
    etype = desc[5] if len(desc) > 5 else None
    img = eg.Img(cls, le, machine=62 if cls == 64 else 3, etype=etype or 2, seed=SEED)
    img.null()
    img.add(eg.Sec('.text', 1, data=b'\x90' * 16, flags=6, addr=0x401000 if etype != 1 else 0, align=16))
    dumped = img.add(eg.Sec('.dumped', 1, data=DUMP_CONTENTS[ci], flags=2 if addr else 0, addr=addr, align=1, file_align=1))
    if etype:
        f = img.f
        strs = img.add(eg.Sec('.strtab', 3, data=b'\0sym\0'))
        symtab = img.add(eg.Sec('.symtab', 2, data=f.sym(0, 0, 0, 0, 0, 0) + f.sym(1, 0x10, 0, 0x10, 0, 1), link=strs.index, info=1, entsize=f.symsize, align=8))
        rela = cls == 64
        body = f.rela(addr + 4, f.r_info(1, 1), 4) if rela else f.rel(addr + 4, f.r_info(1, 1))
        img.add(eg.Sec('.rela.dumped' if rela else '.rel.dumped', 4 if rela else 9, data=body, link=symtab.index, info=dumped.index, entsize=f.relasize if rela else f.relsize, align=8, flags=0x40))
    img.add_shstrtab()
    data = img.encode()
    fails, sts = _compare_all('dump', data, ['.dumped'], [opt + '.dumped'])
    matched = any(s_ == 'match' for s_ in sts)
    return fails, matched, repr(sts), data + repr(desc).encode(), not (matched or fails)


def spaces(tier, seed):
    global SEED
    SEED = seed
    k = 1 if tier == 'quick' else 2
    a = ChoiceSpace('generated-elf-dwarf', run_generated, k,
                    rule='images produced by the model generators of C01 (headers, sections, segments: -e), C03 (symbol and hash tables: -s), C08 (relocation tables and ET_REL debug relocations: -r), '
                         'C09 (dynamic section: -d), C14 (notes: -n), C15 (version sections: -V), C20 (ARM/RISC-V attributes: --arch-specific), C04 (DIE trees: info), C07 (location / range lists: loc, Ranges), '
                         'C13 (aranges, pubnames, pubtypes) under THEIR choice points with at most k deviations from each generator\'s default image; generator x class x byte order fully crossed; '
                         'non-trivial = at least one option compared and matched; outside = every option skipped by the oracle (warning, failure, unknown-value fallback, drift list)')
    a.report_all = True         # every failing execution reaches the known-finding filter (no per-task cap hides a new violation behind recorded ones)
    b = ListSpace('generated-line-cfi', _lc_gen(tier), _lc_check, nparts=128,
                  rule='C05 line programs: every header variant x opcode sequences of length <= %d (decodedline); C06 call-frame sections: .debug_frame default and 18 shapes x sequences <= %d, '
                       '~80 .eh_frame shapes x 3 section addresses%s (frames, frames-interp); same outside rule' % ((1, 1, '') if tier == 'quick' else (2, 2, ' and x sequences of length 1 at one corner')))
    b.report_all = True
    c = ListSpace('generated-dumps', _dump_gen, _dump_check, nparts=16,
                  rule='-x and -p of one section: 13 contents (empty, 1, 15, 16, 17, 33 bytes, control characters, strings that start with TAB / NUL runs / no terminator, a 100-character string) x class x byte order '
                       'x section address {0, 0x401230}; same outside rule')
    c.report_all = True
    return [a, b, c]
