"""C18 space 3 — generated files from the model generators of C01-C15, restricted to the envelope.

The generators are the ones the other properties explore (same choice points, same bounds); `mcx.capture`
stops each of them at its hand-off point and the image goes to both readelf implementations instead.
The envelope is decided by the oracle: a pair on which GNU readelf warns, fails or prints one of its
unknown-value fallbacks is outside (counted, not compared).
"""
import os

from mcx import core, capture, elfwrap
from mcx.core import Case, ChoiceSpace, ListSpace
from mcx.props import c18

SEED = 0


def _gens():
    from mcx.props import c01, c03, c04, c07, c08, c09, c13, c14, c15, c20
    return [
        ('c01-headers', c01.run, ['-e']),
        ('c03-symbols', c03.run_tables, ['-s']),
        ('c08-reloc-tables', c08.run_tables, ['-r']),
        ('c08-reloc-apply', c08.run_apply, ['-r']),
        ('c09-dynamic', c09.run, ['-d']),
        ('c14-notes', c14.run_notes, ['-n']),
        ('c15-versions', c15.run_versions, ['-V']),
        ('c20-attributes', c20.run_attrs, ['--arch-specific']),
        ('c04-die-trees', c04.run, ['--debug-dump=info']),
        ('c07-lists', c07.run, ['--debug-dump=loc', '--debug-dump=Ranges']),
        ('c13-lookup', c13.run, ['--debug-dump=aranges', '--debug-dump=pubnames', '--debug-dump=pubtypes']),
    ]


_GENS = None


def to_image(cap):
    """Captured hand-off -> (ELF image bytes, names of the sections present)"""
    if cap.kind == 'elf':
        data, img = cap.payload
        return data, [s.name for s in img.secs]
    sections, le, addr, arch, addresses = cap.payload
    cls = 64 if addr == 8 else 32
    secs = {k: v for k, v in sections.items() if v is not None}
    data, _ = elfwrap.wrap(secs, cls, le, machine=62 if cls == 64 else 3, etype=2, addresses=addresses)
    return data, list(secs)


def _compare_all(tag, data, present, opts):
    path = os.path.join(c18.SCRATCH, 'c18g.%d.elf' % os.getpid())
    with open(path, 'wb') as fh:
        fh.write(data)
    fails, sts = [], []
    try:
        for opt in opts:
            if opt.startswith('--debug-dump=') and not _has_for(opt, present):
                sts.append('no-section')
                continue
            st, detail = c18.compare(opt, path, image_has=present, probe=True)
            sts.append(st)
            if st in ('mismatch', 'ours-failed'):
                fails.append(('%s %s' % (tag, opt), 'output equal to GNU readelf 2.40', detail))
    finally:
        try:
            os.unlink(path)
        except OSError:
            pass
    return fails, sts


NEEDS = {'info': ('.debug_info',), 'decodedline': ('.debug_line',), 'frames': ('.debug_frame', '.eh_frame'), 'frames-interp': ('.debug_frame', '.eh_frame'),
         'aranges': ('.debug_aranges',), 'pubnames': ('.debug_pubnames',), 'pubtypes': ('.debug_pubtypes',), 'loc': ('.debug_loc', '.debug_loclists'),
         'Ranges': ('.debug_ranges', '.debug_rnglists')}


def _has_for(opt, present):
    return any(s in present for s in NEEDS[opt.split('=')[1]])


def run_generated(ch):
    global _GENS
    if _GENS is None:
        _GENS = _gens()
    gi = ch.free('generator', list(range(len(_GENS))))
    name, fn, opts = _GENS[gi]
    cap = capture.grab(fn, ch)
    if cap is None:
        return Case([], ('none', gi, tuple(ch.choices())).__repr__(), 'no-image', nontrivial=False, envelope=False)
    data, present = to_image(cap)
    fails, sts = _compare_all(name, data, present, opts)
    matched = any(s == 'match' for s in sts)
    return Case(fails, data, repr((name, sts)), nontrivial=matched, envelope=matched or bool(fails), checks=len(opts),
                sample={'generator': name, 'bytes': len(data), 'options': opts, 'status': sts} if matched else None)


# ---- line programs and call-frame tables (bulk families of C05 / C06) ------------------------------------------

def _lc_gen(tier):
    from mcx.props import c05, c06
    quick = tier == 'quick'

    def gen():
        for desc, hv, seq, pi, swap in c05._cases('quick'):
            if len(seq) > (1 if quick else 2):
                continue
            if pi not in (0, 7) or (len(seq) == 2 and pi != 0):
                continue
            yield ['line', desc]
        for d in c06._cases('quick'):
            n = len(d['seq'])
            if d['kind'] == 'debug':
                if n > (1 if quick else 2) or d['param'] not in ((0,) if quick else (0, 7)):
                    continue
            else:
                if quick and n > 0:
                    continue
                if n and (d['param'] != 0 or d['address'] != 0x1000):
                    continue
            yield ['cfi', d]
    return gen


def _lc_check(item):
    from mcx.props import c05, c06
    kind, d = item
    if kind == 'line':
        V = dict(c05.header_variants('quick'))
        cap = capture.grab(c05.check_case, V[d['header']], tuple(d['seq']), d['param'], d['swap'])
        opts = ['--debug-dump=decodedline']
    else:
        cap = capture.grab(c06._run_desc, d)
        opts = ['--debug-dump=frames', '--debug-dump=frames-interp']
    if cap is None:
        return [], False, 'no-image', repr(item).encode(), True
    data, present = to_image(cap)
    fails, sts = _compare_all(kind, data, present, opts)
    matched = any(s == 'match' for s in sts)
    return fails, matched, repr(sts), data, not (matched or fails)


def spaces(tier, seed):
    global SEED
    SEED = seed
    k = 1 if tier == 'quick' else 2
    a = ChoiceSpace('generated-elf-dwarf', run_generated, k,
                    rule='images produced by the model generators of C01 (headers, sections, segments: -e), C03 (symbol and hash tables: -s), C08 (relocation tables and ET_REL debug relocations: -r), '
                         'C09 (dynamic section: -d), C14 (notes: -n), C15 (version sections: -V), C20 (ARM/RISC-V attributes: --arch-specific), C04 (DIE trees: info), C07 (location / range lists: loc, Ranges), '
                         'C13 (aranges, pubnames, pubtypes) under THEIR choice points with at most k deviations from each generator\'s default image; generator x class x byte order fully crossed; '
                         'non-trivial = at least one option compared and matched; outside = every option skipped by the oracle (warning, failure, unknown-value fallback, drift list)')
    b = ListSpace('generated-line-cfi', _lc_gen(tier), _lc_check, nparts=128,
                  rule='C05 line programs: every header variant x opcode sequences of length <= %d (decodedline); C06 call-frame sections: .debug_frame default and 18 shapes x sequences <= %d, '
                       '~80 .eh_frame shapes x 3 section addresses%s (frames, frames-interp); same outside rule' % ((1, 1, '') if tier == 'quick' else (2, 2, ' and x sequences of length 1 at one corner')))
    b.report_all = True
    return [a, b]
