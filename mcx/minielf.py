"""Independent minimal ELF reader (struct only): locates header tables and records so that
faults can be aimed at named fields.  Never imports elftools."""
import struct

EH32 = [('e_type', 16, 2), ('e_machine', 18, 2), ('e_version', 20, 4), ('e_entry', 24, 4), ('e_phoff', 28, 4), ('e_shoff', 32, 4), ('e_flags', 36, 4),
        ('e_ehsize', 40, 2), ('e_phentsize', 42, 2), ('e_phnum', 44, 2), ('e_shentsize', 46, 2), ('e_shnum', 48, 2), ('e_shstrndx', 50, 2)]
EH64 = [('e_type', 16, 2), ('e_machine', 18, 2), ('e_version', 20, 4), ('e_entry', 24, 8), ('e_phoff', 32, 8), ('e_shoff', 40, 8), ('e_flags', 48, 4),
        ('e_ehsize', 52, 2), ('e_phentsize', 54, 2), ('e_phnum', 56, 2), ('e_shentsize', 58, 2), ('e_shnum', 60, 2), ('e_shstrndx', 62, 2)]
SH32 = [('sh_name', 0, 4), ('sh_type', 4, 4), ('sh_flags', 8, 4), ('sh_addr', 12, 4), ('sh_offset', 16, 4), ('sh_size', 20, 4), ('sh_link', 24, 4),
        ('sh_info', 28, 4), ('sh_addralign', 32, 4), ('sh_entsize', 36, 4)]
SH64 = [('sh_name', 0, 4), ('sh_type', 4, 4), ('sh_flags', 8, 8), ('sh_addr', 16, 8), ('sh_offset', 24, 8), ('sh_size', 32, 8), ('sh_link', 40, 4),
        ('sh_info', 44, 4), ('sh_addralign', 48, 8), ('sh_entsize', 56, 8)]
PH32 = [('p_type', 0, 4), ('p_offset', 4, 4), ('p_vaddr', 8, 4), ('p_paddr', 12, 4), ('p_filesz', 16, 4), ('p_memsz', 20, 4), ('p_flags', 24, 4), ('p_align', 28, 4)]
PH64 = [('p_type', 0, 4), ('p_flags', 4, 4), ('p_offset', 8, 8), ('p_vaddr', 16, 8), ('p_paddr', 24, 8), ('p_filesz', 32, 8), ('p_memsz', 40, 8), ('p_align', 48, 8)]


class Mini:
    def __init__(self, data):
        assert data[:4] == b'\x7fELF'
        self.data = data
        self.cls = 32 if data[4] == 1 else 64
        self.le = data[5] == 1
        self.o = '<' if self.le else '>'
        self.EH = EH32 if self.cls == 32 else EH64
        self.SH = SH32 if self.cls == 32 else SH64
        self.PH = PH32 if self.cls == 32 else PH64
        self.eh = {n: self.u(o, w) for n, o, w in self.EH}
        self.shdrs = []
        self.phdrs = []
        shsz = 40 if self.cls == 32 else 64
        phsz = 32 if self.cls == 32 else 56
        if self.eh['e_shoff'] and self.eh['e_shentsize'] >= shsz:
            for i in range(self.eh['e_shnum']):
                base = self.eh['e_shoff'] + i * self.eh['e_shentsize']
                if base + shsz > len(data):
                    break
                self.shdrs.append((base, {n: self.u(base + o, w) for n, o, w in self.SH}))
        if self.eh['e_phoff'] and self.eh['e_phentsize'] >= phsz:
            for i in range(min(self.eh['e_phnum'], 64)):
                base = self.eh['e_phoff'] + i * self.eh['e_phentsize']
                if base + phsz > len(data):
                    break
                self.phdrs.append((base, {n: self.u(base + o, w) for n, o, w in self.PH}))

    def u(self, off, w):
        b = self.data[off:off + w]
        if len(b) < w:
            return 0
        return int.from_bytes(b, 'little' if self.le else 'big')

    def fields(self):
        """-> list of (label, offset, width) of every header/record field faults are aimed at."""
        out = [('ehdr.' + n, o, w) for n, o, w in self.EH]
        out.append(('ehdr.EI_VERSION', 6, 1))
        out.append(('ehdr.EI_OSABI', 7, 1))
        for i, (base, h) in enumerate(self.shdrs):
            for n, o, w in self.SH:
                out.append(('shdr[%d].%s' % (i, n), base + o, w))
        for i, (base, h) in enumerate(self.phdrs):
            for n, o, w in self.PH:
                out.append(('phdr[%d].%s' % (i, n), base + o, w))
        W = self.cls // 8
        for i, (base, h) in enumerate(self.shdrs):
            t, off, size = h['sh_type'], h['sh_offset'], h['sh_size']
            if off + min(size, 1) > len(self.data):
                continue
            if t == 6:      # dynamic entries (first 24)
                for k in range(min(size // (2 * W), 24)):
                    out.append(('dyn[%d].d_tag' % k, off + k * 2 * W, W))
                    out.append(('dyn[%d].d_val' % k, off + k * 2 * W + W, W))
            elif t == 7:    # note headers (walk by the standard layout, first 4)
                p, k = off, 0
                while p + 12 <= off + size and k < 4:
                    ns, ds = self.u(p, 4), self.u(p + 4, 4)
                    out += [('note[%d].n_namesz' % k, p, 4), ('note[%d].n_descsz' % k, p + 4, 4), ('note[%d].n_type' % k, p + 8, 4)]
                    p += 12 + ((ns + 3) & ~3) + ((ds + 3) & ~3)
                    k += 1
            elif t == 5:    # SysV hash header + first words
                for k, n in enumerate(('nbucket', 'nchain', 'bucket0', 'bucket1', 'word4', 'word5', 'word6', 'word7', 'word8', 'word9')):
                    if 4 * k + 4 <= size:
                        out.append(('hash.' + n, off + 4 * k, 4))
            elif t == 0x6ffffff6:
                for k, n in enumerate(('nbuckets', 'symoffset', 'bloom_size', 'bloom_shift')):
                    if 4 * k + 4 <= size:
                        out.append(('gnuhash.' + n, off + 4 * k, 4))
                if size >= 16 + W + 4:
                    out.append(('gnuhash.bloom0', off + 16, W))
                # bucket words and the first chain words (walks driven by them must stay inside the table)
                nb, bs = self.u(off, 4), self.u(off + 8, 4)
                bo = off + 16 + bs * W
                for k in range(min(nb, 8)):
                    if bo + 4 * k + 4 <= off + size:
                        out.append(('gnuhash.bucket%d' % k, bo + 4 * k, 4))
                co = bo + 4 * nb
                for k in range(8):
                    if co + 4 * k + 4 <= off + size:
                        out.append(('gnuhash.chain%d' % k, co + 4 * k, 4))
            elif t == 0x6ffffffe and size >= 16:
                for n, o, w in (('vn_version', 0, 2), ('vn_cnt', 2, 2), ('vn_file', 4, 4), ('vn_aux', 8, 4), ('vn_next', 12, 4)):
                    out.append(('verneed.' + n, off + o, w))
            elif t == 0x6ffffffd and size >= 20:
                for n, o, w in (('vd_version', 0, 2), ('vd_flags', 2, 2), ('vd_ndx', 4, 2), ('vd_cnt', 6, 2), ('vd_hash', 8, 4), ('vd_aux', 12, 4), ('vd_next', 16, 4)):
                    out.append(('verdef.' + n, off + o, w))
            elif t in (2, 11) and size >= (16 if self.cls == 32 else 24):
                out.append(('sym[0].st_name', off, 4))
        return out

    def boundaries(self):
        """File offsets at header-table boundaries (for targeted truncation)."""
        b = {0, 16, len(self.data)}
        b.add(self.eh['e_shoff'])
        b.add(self.eh['e_phoff'])
        for base, h in self.shdrs:
            b.update((base, h['sh_offset'], h['sh_offset'] + h['sh_size']))
        for base, h in self.phdrs:
            b.update((base, h['p_offset'], h['p_offset'] + h['p_filesz']))
        return sorted(x for x in b if 0 <= x <= len(self.data))
