"""E2 — explicit-state exploration of API-call histories on the REAL objects.

A state is the event history that reaches it; live objects are rebuilt by replaying the history on
a freshly opened file.  Invariant on every transition: the observation an event returns equals the
observation the same event returns on a fresh object (for iterator steps: the i-th item of the
fresh uninterrupted iteration, StopIteration exactly at its end).  States are de-duplicated by a
generic fingerprint of the object graph reachable from the roots (no library attribute names).
"""
import hashlib
import io
import multiprocessing as mp
import types

from mcx import core
from mcx.core import Raised

OPAQUE_MODULE_PREFIXES = ('elftools.construct',)


def _opaque(obj):
    t = type(obj)
    m = getattr(t, '__module__', '') or ''
    return (m.startswith(OPAQUE_MODULE_PREFIXES) and not m.endswith('container')) or t.__name__.endswith('Structs') \
        or isinstance(obj, (types.FunctionType, types.BuiltinFunctionType, types.MethodType, type, types.ModuleType, types.CodeType))


class Walker:
    """Generic object-graph walk -> canonical token stream."""

    def __init__(self):
        self.seen = {}
        self.out = []
        self.streams = []

    def walk(self, obj, depth=0):
        out = self.out
        if obj is None or isinstance(obj, (bool, int, float, str, bytes)):
            out.append(repr(obj) if not isinstance(obj, bytes) or len(obj) < 64 else 'b%d:%s' % (len(obj), hashlib.blake2b(obj, digest_size=6).hexdigest()))
            return
        i = id(obj)
        if i in self.seen:
            out.append('@%d' % self.seen[i])
            return
        self.seen[i] = len(self.seen)
        if isinstance(obj, io.BytesIO):
            self.streams.append(obj)
            out.append('stream@%d' % obj.tell())
            return
        if _opaque(obj):
            out.append('<%s>' % type(obj).__name__)
            return
        if depth > 60:
            out.append('<deep>')
            return
        if isinstance(obj, (list, tuple)):
            out.append('[' if isinstance(obj, list) else '(')
            for x in obj:
                self.walk(x, depth + 1)
            out.append(']')
            return
        if isinstance(obj, (set, frozenset)):
            out.append('{')
            for x in sorted(obj, key=repr):
                self.walk(x, depth + 1)
            out.append('}')
            return
        if isinstance(obj, dict):
            out.append('{')
            for k in sorted(obj, key=repr):
                out.append(repr(k) + ':')
                self.walk(obj[k], depth + 1)
            out.append('}')
            return
        if isinstance(obj, types.GeneratorType):
            fr = obj.gi_frame
            if fr is None:
                out.append('gen:%s:done' % obj.gi_code.co_name)
            else:
                out.append('gen:%s:%d' % (obj.gi_code.co_name, fr.f_lasti))
                loc = fr.f_locals
                for k in sorted(loc):
                    out.append(k + '=')
                    self.walk(loc[k], depth + 1)
            return
        out.append(type(obj).__name__ + '(')
        d = getattr(obj, '__dict__', None)
        if isinstance(d, dict):
            for k in sorted(d):
                out.append(k + '=')
                self.walk(d[k], depth + 1)
        for klass in type(obj).__mro__:
            for s in getattr(klass, '__slots__', ()) or ():
                if isinstance(s, str) and hasattr(obj, s):
                    out.append(s + '=')
                    self.walk(getattr(obj, s), depth + 1)
        if isinstance(obj, tuple) and not d:
            for x in obj:
                self.walk(x, depth + 1)
        out.append(')')


def fingerprint(roots):
    w = Walker()
    for r in roots:
        w.walk(r)
    h = hashlib.blake2b('\x1f'.join(w.out).encode('utf-8', 'surrogatepass'), digest_size=12).digest()
    return h, w.streams


def find_streams(roots):
    w = Walker()
    for r in roots:
        w.walk(r)
    return w.streams


class Model:
    """One system under test: file bytes + event menu.  Subclass / instantiate with:
        open()            -> world object (fresh)
        events            -> list of event descriptors (JSON-able tuples)
        apply(world, ev)  -> observation (plain data; exceptions are caught by the explorer)
        roots(world)      -> objects whose graph is the state
    """

    def __init__(self, name, open_fn, events, apply_fn, roots_fn):
        self.name = name
        self.open = open_fn
        self.events = events
        self.apply = apply_fn
        self.roots = roots_fn
        self._fresh = {}

    def fresh_obs(self, ev):
        k = repr(ev)
        if k not in self._fresh:
            w = self.open()
            self._fresh[k] = _norm(_guard(self.apply, w, ev))
        return self._fresh[k]


def _guard(fn, *a):
    try:
        return fn(*a)
    except core.HarnessError:
        raise
    except Exception as e:      # noqa: BLE001
        return ('raises', type(e).__name__)


def _norm(x):
    return repr(x)


SCRAMBLE = ('scramble',)


def replay(model, hist, normalise):
    """Replay `hist` on a fresh world.  Returns (world, list of (obs, expected) for each step)."""
    w = model.open()
    res = []
    for ev in hist:
        res.append(step(model, w, ev, normalise))
    return w, res


def step(model, w, ev, normalise):
    if ev[0] == 'scramble':
        streams = find_streams(model.roots(w))
        for s in streams:
            n = len(s.getbuffer())
            pos = {'start': 0, 'end': n, 'one': min(1, n), 'middle': n // 2}[ev[1]]
            s.seek(pos)
        return ('ok', 'ok')
    obs = _norm(_guard(model.apply, w, ev))
    exp = model.expected(w, ev) if hasattr(model, 'expected') else model.fresh_obs(ev)
    if normalise:
        for s in find_streams(model.roots(w)):
            s.seek(0)
    return (obs, exp)


_MODEL = None
_NORMALISE = True
_EVENTS = None


class _Hang(BaseException):
    pass


def _on_alarm(signum, frame):
    raise _Hang()


def _expand(hist):
    """Worker: replay hist, then try every event from the reached state (each on its own replay).
    A transition that does not finish within 20 s is reported as a violation (non-termination)."""
    import signal
    model = _MODEL
    out = []
    signal.signal(signal.SIGALRM, _on_alarm)
    for ei, ev in enumerate(_EVENTS):
        signal.setitimer(signal.ITIMER_REAL, 20.0)
        try:
            w, res = replay(model, list(hist) + [ev], _NORMALISE)
            obs, exp = res[-1]
            viol = None
            if obs != exp:
                viol = (core._short(exp, 300), core._short(obs, 300))
            fp, _ = fingerprint(model.roots(w))
        except _Hang:
            viol = ('terminates', 'still running after 20 s')
            fp = hashlib.blake2b(repr((hist, ei)).encode(), digest_size=12).digest()
        finally:
            signal.setitimer(signal.ITIMER_REAL, 0)
        out.append((ei, fp, viol))
    return (hist, out)


def bfs(model, events, max_depth, normalise=True, dedupe=True, max_states=None, log=None, deadline=None):
    """Level-synchronous BFS.  Returns dict(states, transitions, depth_completed, saturated, violations, per_level)."""
    import time
    global _MODEL, _NORMALISE, _EVENTS
    _MODEL, _NORMALISE, _EVENTS = model, normalise, events
    if hasattr(model, 'precompute'):
        model.precompute(events)
    ctx = mp.get_context('fork')
    w0 = model.open()
    fp0, _ = fingerprint(model.roots(w0))
    seen = {fp0}
    frontier = [()]
    violations = []
    transitions = 0
    per_level = []
    depth_done = 0
    saturated = False
    capped = None
    with core.WorkerPool(core.NPROC) as pool:
        for depth in range(1, max_depth + 1):
            if not frontier:
                saturated = True
                break
            nxt = []
            new_here = 0
            partial = False
            for hist, out in pool.imap_unordered(_expand, frontier, chunksize=max(1, min(16, len(frontier) // (core.NPROC * 8)))):
                for ei, fp, viol in out:
                    transitions += 1
                    if viol and len(violations) < 40:
                        violations.append((list(hist) + [events[ei]], viol))
                    if (not dedupe) or fp not in seen:
                        seen.add(fp)
                        new_here += 1
                        nxt.append(tuple(hist) + (events[ei],))
                if deadline and time.time() > deadline:
                    partial = True
                    break
            per_level.append({'depth': depth, 'expanded': len(frontier), 'new_states': new_here})
            if partial:
                capped = 'time cap inside depth %d' % depth
                pool.terminate()
                break
            depth_done = depth
            frontier = nxt
            if max_states and len(seen) > max_states:
                capped = 'state cap %d reached after depth %d' % (max_states, depth)
                break
            if violations:
                break
        else:
            saturated = not frontier
    return dict(states=len(seen), transitions=transitions, depth_completed=depth_done, saturated=saturated and not capped, violations=violations,
                per_level=per_level, capped=capped)


def _run_hist(hist):
    """Worker: replay one complete history, comparing EVERY step with its fresh-object expectation."""
    import signal
    model = _MODEL
    signal.signal(signal.SIGALRM, _on_alarm)
    signal.setitimer(signal.ITIMER_REAL, 30.0)
    n = 0
    try:
        w = model.open()
        for i, ev in enumerate(hist):
            obs, exp = step(model, w, ev, _NORMALISE)
            n += 1
            if obs != exp:
                return (list(hist[:i + 1]), n, (core._short(exp, 300), core._short(obs, 300)))
    except _Hang:
        return (list(hist), n, ('terminates', 'still running after 30 s'))
    finally:
        signal.setitimer(signal.ITIMER_REAL, 0)
    return (list(hist), n, None)


def run_histories(model, alphabet, histories, normalise=False, deadline=None):
    """Replays every history of a finite family (each on a fresh world) in parallel.  `alphabet` = the events that occur (for the oracle's precomputation)."""
    import time
    global _MODEL, _NORMALISE, _EVENTS
    _MODEL, _NORMALISE, _EVENTS = model, normalise, alphabet
    if hasattr(model, 'precompute'):
        model.precompute(alphabet)
    ctx = mp.get_context('fork')
    transitions = 0
    done = 0
    violations = []
    capped = None
    with core.WorkerPool(core.NPROC) as pool:
        for hist, n, viol in pool.imap_unordered(_run_hist, histories, chunksize=8):
            transitions += n
            done += 1
            if viol and len(violations) < 40:
                violations.append((hist, viol))
            if deadline and time.time() > deadline:
                capped = 'time cap after %d of %d histories' % (done, len(histories))
                pool.terminate()
                break
    return dict(states=done, transitions=transitions, depth_completed=max((len(h) for h in histories), default=0) if not capped else 0, saturated=False, violations=violations,
                per_level=[{'histories': len(histories), 'replayed': done}], capped=capped)


def minimise_history(model, hist, normalise):
    """Drop events one at a time while the last step still violates."""
    def bad(h):
        w, res = replay(model, h, normalise)
        return res[-1][0] != res[-1][1]
    cur = list(hist)
    changed = True
    while changed:
        changed = False
        for i in range(len(cur) - 1):
            t = cur[:i] + cur[i + 1:]
            try:
                if bad(t):
                    cur = t
                    changed = True
                    break
            except Exception:   # noqa: BLE001 - a shortened history that is not replayable is simply not used
                pass
    return cur
