"""DWARF section assembler (independent of elftools): units, abbreviation tables, DIE trees and
the side tables attribute values point into.  The encoder records, for every DIE, its offset,
size, code, tag, children flag and, for every attribute, name, final form, raw value, resolved
value, value offset and indirection depth — the expectation the checks compare against.

Numeric codes are from the DWARF 2-5 standards (section 7), not from the library.
"""
import struct

from mcx.ref import leb

# forms (DWARF 5 table 7.6 + GNU)
F = dict(addr=0x01, block2=0x03, block4=0x04, data2=0x05, data4=0x06, data8=0x07, string=0x08, block=0x09, block1=0x0a, data1=0x0b, flag=0x0c,
         sdata=0x0d, strp=0x0e, udata=0x0f, ref_addr=0x10, ref1=0x11, ref2=0x12, ref4=0x13, ref8=0x14, ref_udata=0x15, indirect=0x16,
         sec_offset=0x17, exprloc=0x18, flag_present=0x19, strx=0x1a, addrx=0x1b, ref_sup4=0x1c, strp_sup=0x1d, data16=0x1e, line_strp=0x1f,
         ref_sig8=0x20, implicit_const=0x21, loclistx=0x22, rnglistx=0x23, ref_sup8=0x24, strx1=0x25, strx2=0x26, strx3=0x27, strx4=0x28,
         addrx1=0x29, addrx2=0x2a, addrx3=0x2b, addrx4=0x2c, GNU_ref_alt=0x1f20, GNU_strp_alt=0x1f21)
FNAME = {v: k for k, v in F.items()}
# a few tags / attributes
TAG = dict(compile_unit=0x11, partial_unit=0x3c, type_unit=0x41, skeleton_unit=0x4a, subprogram=0x2e, variable=0x34, base_type=0x24, structure_type=0x13,
           member=0x0d, lexical_block=0x0b, formal_parameter=0x05, typedef=0x16, pointer_type=0x0f, namespace=0x39)
AT = dict(sibling=0x01, location=0x02, name=0x03, byte_size=0x0b, stmt_list=0x10, low_pc=0x11, high_pc=0x12, language=0x13, comp_dir=0x1b, const_value=0x1c,
          producer=0x25, decl_file=0x3a, decl_line=0x3b, external=0x3f, frame_base=0x40, type=0x49, ranges=0x55, data_member_location=0x38, signature=0x69,
          str_offsets_base=0x72, addr_base=0x73, rnglists_base=0x74, loclists_base=0x8c, encoding=0x3e, specification=0x47, import_=0x18,
          GNU_locviews=0x2137)
UT = dict(compile=1, type=2, partial=3, skeleton=4, split_compile=5, split_type=6)


class DP:
    """DWARF parameters of one unit."""

    def __init__(self, le=True, fmt=32, addr=8, version=4):
        self.le, self.fmt, self.addr, self.version = le, fmt, addr, version
        self.o = '<' if le else '>'
        self.order = 'little' if le else 'big'
        self.osz = fmt // 8

    def off(self, v):
        return v.to_bytes(self.osz, self.order)

    def address(self, v):
        return (v & ((1 << (8 * self.addr)) - 1)).to_bytes(self.addr, self.order)

    def initial_length(self, n):
        if self.fmt == 32:
            return struct.pack(self.o + 'I', n)
        return b'\xff\xff\xff\xff' + struct.pack(self.o + 'Q', n)

    def u(self, n, v):
        return (v & ((1 << (8 * n)) - 1)).to_bytes(n, self.order)

    def key(self):
        return (self.le, self.fmt, self.addr, self.version)


class Abbrev:
    def __init__(self, code, tag, children, specs):
        self.code, self.tag, self.children = code, tag, children
        self.specs = specs          # [(attr code, form code, implicit_const value or None)]


class Die:
    def __init__(self, abbrev, values=(), children=(), label=None):
        self.abbrev = abbrev        # None = null entry
        self.values = list(values)  # one model value per spec (see enc_value)
        self.children = list(children)
        self.label = label
        self.null_len = 1           # bytes of the null entry encoding (abbrev None)
        # filled by the encoder
        self.offset = self.size = None
        self.attrs = []             # [(at, final_form, raw, value, offset, indirection)]
        self.parent = None
        self.unit = None


def null(n=1):
    d = Die(None)
    d.null_len = n
    return d


class Unit:
    def __init__(self, dp, root, unit_type=None, abbrev_key='own', dwo_id=0x1122334455667788, type_signature=0x0102030405060708,
                 type_die_label=None, in_types=False, extra_nulls=0):
        self.dp = dp
        self.root = root
        self.unit_type = unit_type if unit_type is not None else (UT['compile'] if dp.version >= 5 else None)
        self.abbrev_key = abbrev_key        # units with the same key share one abbreviation table
        self.dwo_id = dwo_id
        self.type_signature = type_signature
        self.type_die_label = type_die_label
        self.in_types = in_types            # v4 .debug_types unit
        self.extra_nulls = extra_nulls      # null entries after the root's own terminator
        self.offset = self.size = self.die_offset = self.abbrev_offset = None
        self.dies = []                      # every DIE incl. nulls, in section order
        self.type_offset = 0

    def header_len(self):
        dp = self.dp
        n = dp.osz + (4 if dp.fmt == 32 else 12) - dp.osz      # initial length
        n = (4 if dp.fmt == 32 else 12) + 2
        if self.in_types:
            return n + dp.osz + 1 + 8 + dp.osz
        if dp.version >= 5:
            n += 1 + 1 + dp.osz
            if self.unit_type in (UT['skeleton'], UT['split_compile']):
                n += 8
            elif self.unit_type in (UT['type'], UT['split_type']):
                n += 8 + dp.osz
            return n
        return n + dp.osz + 1


class Ctx:
    """Side tables shared by all units of one assembly."""

    def __init__(self, le):
        self.le = le
        self.str = bytearray(b'\0')
        self.line_str = bytearray(b'\0')
        self.str_index = {}
        self.labels = {}            # label -> Die
        self.addr_tables = {}       # unit -> (base, [addresses])
        self.sections = {}

    def add_str(self, s, table='str', share=True):
        buf = self.str if table == 'str' else self.line_str
        key = (table, s)
        if share and key in self.str_index:
            return self.str_index[key]
        o = len(buf)
        buf += s + b'\0'
        self.str_index[key] = o
        return o


def _iter(die):
    yield die
    for c in die.children:
        yield from _iter(c)


class Assembly:
    """Lays out .debug_abbrev, .debug_info (and .debug_types), .debug_str, .debug_line_str, .debug_str_offsets,
    .debug_addr and minimal .debug_loclists/.debug_rnglists offset tables."""

    def __init__(self, units, le=True, abbrev_lead=0, strings=(b'first', b'middle string', b'last'), addresses=(0x1000, 0, 0xffffffff, 0x7fffffffffff),
                 list_offsets=(0x10, 0x24, 0x48), info_lead=0):
        self.units = units
        self.le = le
        self.abbrev_lead = abbrev_lead      # bytes (a dummy table) before the first abbreviation table
        self.ctx = Ctx(le)
        self.strings = list(strings)
        self.addresses = list(addresses)
        self.list_offsets = list(list_offsets)
        self.info_lead = info_lead
        self.sections = {}
        self.overflow = False

    # -- abbreviation tables
    def _abbrevs(self):
        tables = {}
        order = []
        for u in self.units:
            key = u.abbrev_key if u.abbrev_key != 'own' else ('own', id(u))
            if key not in tables:
                tables[key] = {}
                order.append(key)
            for d in _iter(u.root):
                if d.abbrev is not None:
                    prev = tables[key].get(d.abbrev.code)
                    assert prev is None or prev is d.abbrev, 'abbreviation code %d reused in one table' % d.abbrev.code
                    tables[key][d.abbrev.code] = d.abbrev
            u._akey = key
        buf = bytearray()
        if self.abbrev_lead:
            # a small unrelated table so that real tables start at a non-zero offset
            buf += leb.uleb(1) + leb.uleb(TAG['base_type']) + b'\0' + b'\0\0' + b'\0'
            buf += b'\0' * max(0, self.abbrev_lead - len(buf))
        offs = {}
        for key in order:
            offs[key] = len(buf)
            for code in sorted(tables[key]):
                a = tables[key][code]
                buf += leb.uleb(a.code) + leb.uleb(a.tag) + (b'\x01' if a.children else b'\0')
                for at, form, ic in a.specs:
                    buf += leb.uleb(at) + leb.uleb(form)
                    if form == F['implicit_const']:
                        buf += leb.sleb(ic)
                buf += b'\0\0'
            buf += b'\0'
        for u in self.units:
            u.abbrev_offset = offs[u._akey]
        return bytes(buf)

    # -- attribute values
    def enc_value(self, u, die, at, form, ic, v, pos, final):
        """-> (bytes, final_form, raw, value, indirection).  `v` is the model value:
        int for numeric forms, bytes for blocks/strings, ('ref', label) for references, ('idx', i) for index forms,
        ('indirect', form, v) / nested for DW_FORM_indirect."""
        dp = u.dp
        ctx = self.ctx
        n = FNAME.get(form)
        ind = 0
        if n == 'indirect':
            chain = b''
            inner_form, inner_v = v[1], v[2]
            ind = 1
            chain += leb.uleb(inner_form)
            while inner_form == F['indirect']:
                inner_form, inner_v = inner_v[1], inner_v[2]
                chain += leb.uleb(inner_form)
                ind += 1
            b, ff, raw, val, _ = self.enc_value(u, die, at, inner_form, None, inner_v, pos + len(chain), final)
            return chain + b, ff, raw, val, ind
        if n == 'addr':
            m = (1 << (8 * dp.addr)) - 1
            return dp.address(v), form, v & m, v & m, 0
        if n in ('data1', 'data2', 'data4', 'data8'):
            w = int(n[4:])
            return dp.u(w, v), form, v & ((1 << (8 * w)) - 1), v & ((1 << (8 * w)) - 1), 0
        if n == 'data16':
            return bytes(v), form, list(v), list(v), 0
        if n == 'sdata':
            val, pad = v if isinstance(v, tuple) else (v, 0)
            return leb.sleb(val, pad), form, val, val, 0
        if n == 'udata':
            val, pad = v if isinstance(v, tuple) else (v, 0)
            return leb.uleb(val, pad), form, val, val, 0
        if n in ('block1', 'block2', 'block4', 'block', 'exprloc'):
            pre = {'block1': lambda k: dp.u(1, k), 'block2': lambda k: dp.u(2, k), 'block4': lambda k: dp.u(4, k)}.get(n, lambda k: leb.uleb(k))
            return pre(len(v)) + bytes(v), form, list(v), list(v), 0
        if n == 'string':
            return bytes(v) + b'\0', form, bytes(v), bytes(v), 0
        if n in ('strp', 'line_strp'):
            table = 'str' if n == 'strp' else 'line_str'
            o = v if isinstance(v, int) else ctx.add_str(v, table)
            buf = ctx.str if n == 'strp' else ctx.line_str
            e = buf.find(b'\0', o)
            return dp.off(o), form, o, bytes(buf[o:e]), 0
        if n in ('strp_sup', 'GNU_strp_alt', 'GNU_ref_alt', 'sec_offset'):
            return dp.off(v), form, v, v, 0
        if n == 'ref_sup4':
            return dp.u(4, v), form, v, v, 0
        if n in ('ref_sup8', 'ref_sig8'):
            return dp.u(8, v), form, v, v, 0
        if n == 'flag':
            return bytes([v]), form, v, (v != 0), 0
        if n == 'flag_present':
            return b'', form, b'', True, 0
        if n == 'implicit_const':
            return b'', form, ic, ic, 0
        if n in ('ref1', 'ref2', 'ref4', 'ref8', 'ref_udata', 'ref_addr'):
            if isinstance(v, tuple):
                tgt = ctx.labels[v[1]]
                toff = tgt.offset if (final and tgt.offset is not None) else 0
                rel = (toff - (u.offset or 0) if n != 'ref_addr' else toff) if final else 0
            else:
                rel = v
            if n == 'ref_udata':
                return leb.uleb(rel, 4), form, rel, rel, 0
            if n == 'ref_addr':
                w = dp.addr if dp.version == 2 else dp.osz
            else:
                w = int(n[3:])
            if final and not 0 <= rel < (1 << (8 * w)):
                self.overflow = True        # the target does not fit the form: the image is malformed (callers treat the case as outside the envelope)
            return dp.u(w, rel), form, rel & ((1 << (8 * w)) - 1), rel & ((1 << (8 * w)) - 1), 0
        if n in ('addrx', 'addrx1', 'addrx2', 'addrx3', 'addrx4'):
            i = v[1]
            b = leb.uleb(i, v[2] if len(v) > 2 else 0) if n == 'addrx' else dp.u(int(n[5:]), i)
            val = self.addresses[i] & ((1 << (8 * dp.addr)) - 1) if u._has_base.get('addr') else i
            return b, form, i, val, 0
        if n in ('strx', 'strx1', 'strx2', 'strx3', 'strx4'):
            i = v[1]
            b = leb.uleb(i, v[2] if len(v) > 2 else 0) if n == 'strx' else dp.u(int(n[4:]), i)
            val = u._strings[i] if u._has_base.get('str') else i
            return b, form, i, val, 0
        if n in ('loclistx', 'rnglistx'):
            i = v[1]
            which = 'loc' if n == 'loclistx' else 'rng'
            val = (u._bases[which] + self.list_offsets[i]) if u._has_base.get(which) else i
            return leb.uleb(i, v[2] if len(v) > 2 else 0), form, i, val, 0
        raise AssertionError('form %#x' % form)

    def _layout_unit(self, u, start, final):
        dp = u.dp
        u.offset = start
        pos = start + u.header_len()
        u.die_offset = pos
        u.dies = []

        def place(die, parent):
            nonlocal pos
            die.offset = pos
            die.parent = parent
            die.unit = u
            u.dies.append(die)
            if die.abbrev is None:
                pos += die.null_len
                die.size = die.null_len
                die.attrs = []
                return
            a = die.abbrev
            p0 = pos
            pos += len(leb.uleb(a.code))
            die.attrs = []
            die._bytes = bytearray(leb.uleb(a.code))
            for (at, form, ic), v in zip(a.specs, die.values):
                b, ff, raw, val, ind = self.enc_value(u, die, at, form, ic, v, pos, final)
                die.attrs.append((at, ff, raw, val, pos, ind))
                die._bytes += b
                pos += len(b)
            die.size = pos - p0
            if a.children:
                for c in die.children:
                    place(c, die)
                if not die.children or die.children[-1].abbrev is not None:
                    raise AssertionError('a DIE with children must end its list with a null entry')
        place(u.root, None)
        for i in range(u.extra_nulls):
            d = null()
            d.offset, d.size, d.unit, d.parent = pos, 1, u, None
            d.attrs = []
            u.dies.append(d)
            u._extra = getattr(u, '_extra', [])
            pos += 1
        u.size = pos - start
        return pos

    def _unit_bytes(self, u):
        dp = u.dp
        body = bytearray()
        for d in u.dies:
            if d.abbrev is None:
                body += (b'\x80' * (d.null_len - 1) + b'\0') if d.size == d.null_len else b'\0'
            else:
                body += d._bytes
        il = 4 if dp.fmt == 32 else 12
        unit_length = u.size - il
        h = dp.initial_length(unit_length) + dp.u(2, dp.version)
        if u.in_types:
            h += dp.off(u.abbrev_offset) + bytes([dp.addr]) + dp.u(8, u.type_signature) + dp.off(u.type_offset)
        elif dp.version >= 5:
            h += bytes([u.unit_type, dp.addr]) + dp.off(u.abbrev_offset)
            if u.unit_type in (UT['skeleton'], UT['split_compile']):
                h += dp.u(8, u.dwo_id)
            elif u.unit_type in (UT['type'], UT['split_type']):
                h += dp.u(8, u.type_signature) + dp.off(u.type_offset)
        else:
            h += dp.off(u.abbrev_offset) + bytes([dp.addr])
        assert len(h) == u.header_len(), (len(h), u.header_len())
        return bytes(h) + bytes(body)

    def assemble(self):
        ctx = self.ctx
        for u in self.units:
            for d in _iter(u.root):
                if d.label:
                    ctx.labels[d.label] = d
        abbrev = self._abbrevs()
        # side tables with fixed contents -> bases are known up front
        # .debug_str_offsets: one contribution per parameter set in use (header 8 or 16 bytes)
        so = bytearray()
        ad = bytearray()
        ll = bytearray()
        rl = bytearray()
        for un, u in enumerate(self.units):
            dp = u.dp
            # each unit's contribution lists the strings in its own order (rotated by the unit's ordinal): an index means a different string in every unit
            k = un % len(self.strings) if self.strings else 0
            u._strings = self.strings[k:] + self.strings[:k]
            str_offs = [self.ctx.add_str(s_) for s_ in u._strings]
            base_ats = {at for at, _, _ in (u.root.abbrev.specs if u.root.abbrev else [])}
            u._has_base = {'str': AT['str_offsets_base'] in base_ats, 'addr': AT['addr_base'] in base_ats,
                           'loc': AT['loclists_base'] in base_ats, 'rng': AT['rnglists_base'] in base_ats}
            u._bases = {}
            # string offsets contribution
            body = b''.join(dp.off(o) for o in str_offs)
            hdr = dp.initial_length(4 + len(body)) + dp.u(2, 5) + dp.u(2, 0)
            u._bases['str'] = len(so) + len(hdr)
            so += hdr + body
            body = b''.join(dp.address(a) for a in self.addresses)
            hdr = dp.initial_length(4 + len(body)) + dp.u(2, 5) + bytes([dp.addr, 0])
            u._bases['addr'] = len(ad) + len(hdr)
            ad += hdr + body
            for buf, which in ((ll, 'loc'), (rl, 'rng')):
                tab = b''.join(dp.off(o) for o in self.list_offsets)
                payload = tab + b'\0' * (max(self.list_offsets) + 8 - len(tab) if self.list_offsets else 0)
                hdr = dp.initial_length(8 + len(payload)) + dp.u(2, 5) + bytes([dp.addr, 0]) + dp.u(4, len(self.list_offsets))
                u._bases[which] = len(buf) + len(hdr)
                buf += hdr + payload
            # base attributes in the root are given as ('base', kind): resolve now
            if u.root.abbrev:
                for i, ((at, form, ic), v) in enumerate(zip(u.root.abbrev.specs, u.root.values)):
                    if isinstance(v, tuple) and v and v[0] == 'base':
                        u.root.values[i] = u._bases[v[1]]
        # two passes over .debug_info / .debug_types: offsets first, then reference values
        for final in (False, True):
            pos_info, pos_types = self.info_lead, 0
            for u in self.units:
                if u.in_types:
                    pos_types = self._layout_unit(u, pos_types, final)
                else:
                    pos_info = self._layout_unit(u, pos_info, final)
            for u in self.units:
                if u.type_die_label:
                    u.type_offset = ctx.labels[u.type_die_label].offset - u.offset
        info = bytearray(b'\0' * self.info_lead)
        types = bytearray()
        for u in self.units:
            (types if u.in_types else info).extend(self._unit_bytes(u))
        self.sections = {'.debug_abbrev': abbrev, '.debug_info': bytes(info), '.debug_str': bytes(ctx.str), '.debug_line_str': bytes(ctx.line_str),
                         '.debug_str_offsets': bytes(so), '.debug_addr': bytes(ad), '.debug_loclists': bytes(ll), '.debug_rnglists': bytes(rl)}
        if types:
            self.sections['.debug_types'] = bytes(types)
        return self.sections


# ---- feeding the library -----------------------------------------------------------------------------

SEC_ARGS = {'.debug_info': 'debug_info_sec', '.debug_aranges': 'debug_aranges_sec', '.debug_abbrev': 'debug_abbrev_sec', '.debug_frame': 'debug_frame_sec',
            '.eh_frame': 'eh_frame_sec', '.debug_str': 'debug_str_sec', '.debug_loc': 'debug_loc_sec', '.debug_ranges': 'debug_ranges_sec',
            '.debug_line': 'debug_line_sec', '.debug_pubtypes': 'debug_pubtypes_sec', '.debug_pubnames': 'debug_pubnames_sec', '.debug_addr': 'debug_addr_sec',
            '.debug_str_offsets': 'debug_str_offsets_sec', '.debug_line_str': 'debug_line_str_sec', '.debug_loclists': 'debug_loclists_sec',
            '.debug_rnglists': 'debug_rnglists_sec', '.debug_sup': 'debug_sup_sec', '.gnu_debugaltlink': 'gnu_debugaltlink_sec', '.debug_types': 'debug_types_sec'}


def make_dwarfinfo(sections, le, default_addr=8, machine_arch='x64', addresses=None):
    """DWARFInfo driven directly through DebugSectionDescriptors (the documented way)."""
    import io
    from mcx import capture
    if capture.ACTIVE:
        raise capture.Captured('dwarf', (dict(sections), le, default_addr, machine_arch, dict(addresses or {})))
    from elftools.dwarf.dwarfinfo import DWARFInfo, DebugSectionDescriptor, DwarfConfig
    kw = {}
    for name, arg in SEC_ARGS.items():
        data = sections.get(name)
        if data is None:
            kw[arg] = None
        else:
            kw[arg] = DebugSectionDescriptor(stream=io.BytesIO(data), name=name, global_offset=0, size=len(data),
                                             address=(addresses or {}).get(name, 0))
    return DWARFInfo(config=DwarfConfig(little_endian=le, machine_arch=machine_arch, default_address_size=default_addr), **kw)
