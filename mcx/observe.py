"""Normalisation of library results to plain data (public API only)."""


def plain(x):
    from collections.abc import Mapping
    if isinstance(x, Mapping):
        return {k: plain(v) for k, v in x.items()}
    if isinstance(x, (list, tuple)):
        return [plain(v) for v in x]
    return x
