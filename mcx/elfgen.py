"""ELF image model + encoder (independent of elftools; struct.pack only).

An image is a file header, a list of sections, a list of segments and layout
parameters.  encode() lays everything out itself and therefore knows every offset
and size that the checks later expect.  Numeric codes come from the gABI/psABI
documents (see the constants below), never from the library under test.
"""
import struct

from mcx import capture

# --- constants transcribed from the gABI / psABIs (not from elftools) -----------------
ET_NONE, ET_REL, ET_EXEC, ET_DYN, ET_CORE = 0, 1, 2, 3, 4
EM_NONE, EM_386, EM_MIPS, EM_MIPS_RS3_LE, EM_PPC64, EM_S390, EM_ARM, EM_X86_64, EM_AARCH64, EM_RISCV, EM_BPF, EM_LOONGARCH = \
    0, 3, 8, 10, 21, 22, 40, 62, 183, 243, 247, 258
SHT_NULL, SHT_PROGBITS, SHT_SYMTAB, SHT_STRTAB, SHT_RELA, SHT_HASH, SHT_DYNAMIC, SHT_NOTE, SHT_NOBITS, SHT_REL, SHT_SHLIB, SHT_DYNSYM = range(12)
SHT_INIT_ARRAY, SHT_FINI_ARRAY, SHT_PREINIT_ARRAY, SHT_GROUP, SHT_SYMTAB_SHNDX, SHT_RELR = 14, 15, 16, 17, 18, 19
SHT_GNU_ATTRIBUTES, SHT_GNU_HASH, SHT_GNU_LIBLIST = 0x6ffffff5, 0x6ffffff6, 0x6ffffff7
SHT_SUNW_LDYNSYM, SHT_SUNW_syminfo = 0x6ffffff3, 0x6ffffffc
SHT_GNU_verdef, SHT_GNU_verneed, SHT_GNU_versym = 0x6ffffffd, 0x6ffffffe, 0x6fffffff
SHT_ARM_EXIDX, SHT_ARM_ATTRIBUTES = 0x70000001, 0x70000003
SHT_RISCV_ATTRIBUTES = 0x70000003
SHF_WRITE, SHF_ALLOC, SHF_EXECINSTR, SHF_MERGE, SHF_STRINGS, SHF_INFO_LINK, SHF_TLS, SHF_COMPRESSED = 1, 2, 4, 0x10, 0x20, 0x40, 0x400, 0x800
PT_NULL, PT_LOAD, PT_DYNAMIC, PT_INTERP, PT_NOTE, PT_SHLIB, PT_PHDR, PT_TLS = range(8)
PT_GNU_EH_FRAME, PT_GNU_STACK, PT_GNU_RELRO, PT_GNU_PROPERTY = 0x6474e550, 0x6474e551, 0x6474e552, 0x6474e553
SHN_UNDEF, SHN_LORESERVE, SHN_ABS, SHN_COMMON, SHN_XINDEX = 0, 0xff00, 0xfff1, 0xfff2, 0xffff
PN_XNUM = 0xffff


def lcg(seed):
    """Deterministic filler byte source (the don't-care bytes the seed selects)."""
    x = (seed * 2654435761 + 12345) & 0xffffffff
    while True:
        x = (x * 1103515245 + 12345) & 0xffffffff
        yield (x >> 16) & 0xff


def filler(seed, n):
    g = lcg(seed)
    return bytes(next(g) for _ in range(n))


class Fmt:
    """struct formats for one (class, byte order)."""

    def __init__(self, cls, le):
        self.cls, self.le = cls, le
        self.o = '<' if le else '>'
        self.A = 'I' if cls == 32 else 'Q'          # addr/off/xword
        self.SA = 'i' if cls == 32 else 'q'
        self.ehsize = 52 if cls == 32 else 64
        self.shsize = 40 if cls == 32 else 64
        self.phsize = 32 if cls == 32 else 56
        self.symsize = 16 if cls == 32 else 24
        self.relsize = 8 if cls == 32 else 16
        self.relasize = 12 if cls == 32 else 24
        self.dynsize = 8 if cls == 32 else 16
        self.chsize = 12 if cls == 32 else 24
        self.wordsize = cls // 8
        self.mask = (1 << cls) - 1

    def pack(self, f, *v):
        return struct.pack(self.o + f, *v)

    def word(self, v):
        return struct.pack(self.o + 'I', v & 0xffffffff)

    def addr(self, v):
        return struct.pack(self.o + self.A, v & self.mask)

    def half(self, v):
        return struct.pack(self.o + 'H', v & 0xffff)

    def shdr(self, name, type, flags, addr, offset, size, link, info, align, entsize):
        m = self.mask
        return struct.pack(self.o + 'II' + self.A * 4 + 'II' + self.A * 2, name & 0xffffffff, type & 0xffffffff, flags & m, addr & m, offset & m,
                           size & m, link & 0xffffffff, info & 0xffffffff, align & m, entsize & m)

    def phdr(self, type, flags, offset, vaddr, paddr, filesz, memsz, align):
        if self.cls == 32:
            return struct.pack(self.o + '8I', type, offset, vaddr, paddr, filesz, memsz, flags, align)
        return struct.pack(self.o + 'II6Q', type, flags, offset, vaddr, paddr, filesz, memsz, align)

    def sym(self, name, value, size, info, other, shndx):
        if self.cls == 32:
            return struct.pack(self.o + 'IIIBBH', name, value & self.mask, size & 0xffffffff, info, other, shndx)
        return struct.pack(self.o + 'IBBHQQ', name, info, other, shndx, value & self.mask, size & self.mask)

    def r_info(self, sym, type):
        return ((sym << 8) | (type & 0xff)) if self.cls == 32 else ((sym << 32) | (type & 0xffffffff))

    def rel(self, offset, info):
        return struct.pack(self.o + self.A * 2, offset & self.mask, info & self.mask)

    def rela(self, offset, info, addend):
        return struct.pack(self.o + self.A * 2 + self.SA, offset & self.mask, info & self.mask, addend)

    def dyn(self, tag, val):
        return struct.pack(self.o + self.SA + self.A, tag, val & self.mask)

    def chdr(self, ch_type, size, align):
        if self.cls == 32:
            return struct.pack(self.o + 'III', ch_type, size, align)
        return struct.pack(self.o + 'IIQQ', ch_type, 0, size, align)


class Sec:
    def __init__(self, name, type, data=b'', flags=0, addr=0, link=0, info=0, align=1, entsize=0,
                 size=None, offset=None, name_off=None, file_align=None):
        self.name = name
        self.type = type
        self.data = data            # bytes, or callable(img) -> bytes evaluated after layout (size required)
        self.flags = flags
        self.addr = addr
        self.link = link
        self.info = info
        self.align = align
        self.entsize = entsize
        self.size = size            # declared sh_size (None -> len(data))
        self.offset = offset        # None -> laid out automatically
        self.name_off = name_off    # None -> assigned from the section-name string table
        self.file_align = file_align
        self.index = None

    def occupies(self):
        return 0 if self.type in (SHT_NOBITS, SHT_NULL) else (len(self.data) if isinstance(self.data, (bytes, bytearray)) else self.size)

    def sh_size(self):
        return self.size if self.size is not None else len(self.data)


class Seg:
    def __init__(self, type, flags=4, offset=0, vaddr=0, paddr=None, filesz=0, memsz=None, align=1, of=None):
        self.type = type
        self.flags = flags
        self.offset = offset
        self.vaddr = vaddr
        self.paddr = paddr
        self.filesz = filesz
        self.memsz = memsz
        self.align = align
        self.of = of                # Sec (or list of Secs): take offset/filesz/vaddr from it after layout

    def resolve(self):
        if self.of is not None:
            secs = self.of if isinstance(self.of, (list, tuple)) else [self.of]
            lo = min(s.offset for s in secs)
            hi = max(s.offset + s.occupies() for s in secs)
            self.offset = lo
            self.filesz = hi - lo
            self.vaddr = secs[0].addr
            if self.memsz is None:
                last = max(secs, key=lambda s: s.addr)
                self.memsz = max(self.filesz, last.addr + last.sh_size() - self.vaddr)
        if self.memsz is None:
            self.memsz = self.filesz
        if self.paddr is None:
            self.paddr = self.vaddr


class Img:
    def __init__(self, cls=64, le=True, machine=EM_X86_64, etype=ET_DYN, osabi=0, abiver=0, ei_version=1,
                 version=1, entry=0, flags=0, seed=0):
        self.f = Fmt(cls, le)
        self.cls, self.le = cls, le
        self.machine, self.etype, self.osabi, self.abiver = machine, etype, osabi, abiver
        self.ei_version, self.version, self.entry, self.flags = ei_version, version, entry, flags
        self.seed = seed
        self.secs = []
        self.segs = []
        self.shstr = None           # the section-name string table Sec (created by add_shstrtab)
        self.shstr_mode = 'plain'   # 'plain' | 'suffix'
        self.ph_place = 'after_ehdr'    # 'after_ehdr' | 'after_data' | 'odd_gap'
        self.sh_place = 'after_data'    # 'after_data' | 'after_ehdr' | 'odd_gap'
        self.shentsize_extra = 0
        self.phentsize_extra = 0
        self.strip_shdrs = False    # e_shoff = e_shnum = e_shstrndx = 0, no table written
        self.xnum_sections = False  # force e_shnum=0 / count in section 0 (only legal when >= 0xff00)
        self.ident_pad = b'\0' * 7
        self.ehsize_field = None
        self.trailer = b''
        # results of layout
        self.phoff = self.shoff = 0
        self.names = {}

    # -- construction helpers
    def add(self, sec):
        sec.index = len(self.secs)
        self.secs.append(sec)
        return sec

    def seg(self, seg):
        self.segs.append(seg)
        return seg

    def null(self):
        return self.add(Sec('', SHT_NULL, align=0))

    def add_shstrtab(self, name='.shstrtab'):
        self.shstr = self.add(Sec(name, SHT_STRTAB))
        return self.shstr

    # -- string table for section names
    def _build_shstr(self):
        if self.shstr is None:
            return
        tab = bytearray(b'\0')
        offs = {'': 0}
        names = [s.name for s in self.secs]
        order = sorted(set(names), key=lambda n: (-len(n), n)) if self.shstr_mode == 'suffix' else names
        for n in order:
            if n in offs:
                continue
            nb = n.encode('utf-8') + b'\0'
            if self.shstr_mode == 'suffix':
                p = bytes(tab).find(nb)
                if p >= 0:
                    offs[n] = p
                    continue
            offs[n] = len(tab)
            tab += nb
        extra = getattr(self, 'shstr_extra', b'')
        self.shstr.data = bytes(tab) + extra
        self.names = offs

    def layout(self):
        """Assign file offsets; returns total size.  Idempotent."""
        f = self.f
        self._build_shstr()
        shentsize = f.shsize + self.shentsize_extra
        phentsize = f.phsize + self.phentsize_extra
        nsh = 0 if self.strip_shdrs else len(self.secs)
        nph = len(self.segs)
        pos = f.ehsize
        self._gaps = []

        def place_table(n, entsize, where):
            nonlocal pos
            if where == 'odd_gap':
                start = pos + 13 + (0 if (pos + 13) % 2 else 1)
                self._gaps.append((pos, start))
            else:
                start = pos
            pos = start + n * entsize
            return start
        self.phoff = self.shoff = 0
        if nph and self.ph_place in ('after_ehdr', 'odd_gap'):
            self.phoff = place_table(nph, phentsize, self.ph_place)
        if nsh and self.sh_place in ('after_ehdr', 'odd_gap'):
            self.shoff = place_table(nsh, shentsize, self.sh_place)
        for s in self.secs:
            if s.type == SHT_NULL and s.offset is None:
                s.offset = 0
                continue
            if s.offset is None or getattr(s, '_auto', False):
                s._auto = True
                a = s.file_align if s.file_align is not None else max(1, min(s.align or 1, 16))
                start = (pos + a - 1) // a * a
                if start != pos:
                    self._gaps.append((pos, start))
                s.offset = start
                pos = start + s.occupies()
            elif s.occupies():
                pos = max(pos, s.offset + s.occupies())
        if nph and self.ph_place == 'after_data':
            start = (pos + 7) // 8 * 8
            self._gaps.append((pos, start))
            pos = start
            self.phoff = place_table(nph, phentsize, 'here')
        if nsh and self.sh_place == 'after_data':
            start = (pos + 7) // 8 * 8
            self._gaps.append((pos, start))
            pos = start
            self.shoff = place_table(nsh, shentsize, 'here')
        self.total = pos + len(self.trailer)
        for g in self.segs:
            g.resolve()
        return self.total

    def header_fields(self):
        """The e_* values that encode() writes (the model's expectation)."""
        f = self.f
        nsh = 0 if self.strip_shdrs else len(self.secs)
        nph = len(self.segs)
        shstrndx = self.shstr.index if (self.shstr is not None and not self.strip_shdrs) else 0
        e_shnum = nsh
        e_shstrndx = shstrndx
        e_phnum = nph
        sec0 = {}
        if nsh >= SHN_LORESERVE or (self.xnum_sections and nsh):
            e_shnum = 0
            sec0['size'] = nsh
        if shstrndx >= SHN_LORESERVE:
            e_shstrndx = SHN_XINDEX
            sec0['link'] = shstrndx
        if nph >= PN_XNUM:
            e_phnum = PN_XNUM
            sec0['info'] = nph
        return dict(e_type=self.etype, e_machine=self.machine, e_version=self.version, e_entry=self.entry,
                    e_phoff=self.phoff, e_shoff=self.shoff, e_flags=self.flags,
                    e_ehsize=self.ehsize_field if self.ehsize_field is not None else f.ehsize,
                    e_phentsize=(f.phsize + self.phentsize_extra) if nph else 0, e_phnum=e_phnum,
                    e_shentsize=(f.shsize + self.shentsize_extra) if nsh else 0,
                    e_shnum=e_shnum, e_shstrndx=e_shstrndx), sec0

    def encode(self):
        f = self.f
        self.layout()
        buf = bytearray(filler(self.seed, self.total)) if self.total < (1 << 16) else bytearray(self.total)
        h, sec0 = self.header_fields()
        if sec0 and self.secs:
            s0 = self.secs[0]
            s0.size = sec0.get('size', s0.size if s0.size is not None else 0)
            s0.link = sec0.get('link', s0.link)
            s0.info = sec0.get('info', s0.info)
        ident = b'\x7fELF' + bytes([1 if self.cls == 32 else 2, 1 if self.le else 2, self.ei_version, self.osabi, self.abiver]) + self.ident_pad
        eh = ident + struct.pack(f.o + 'HHI' + f.A * 3 + 'IHHHHHH', h['e_type'], h['e_machine'], h['e_version'], h['e_entry'] & f.mask,
                                 h['e_phoff'], h['e_shoff'], h['e_flags'], h['e_ehsize'], h['e_phentsize'], h['e_phnum'],
                                 h['e_shentsize'], h['e_shnum'], h['e_shstrndx'])
        buf[0:len(eh)] = eh
        for s in self.secs:
            if callable(s.data):
                d = s.data(self)
                assert len(d) == s.size, (s.name, len(d), s.size)
                s.data = d
            n = s.occupies()
            if n:
                buf[s.offset:s.offset + n] = s.data
        phentsize = f.phsize + self.phentsize_extra
        for i, g in enumerate(self.segs):
            o = self.phoff + i * phentsize
            buf[o:o + f.phsize] = f.phdr(g.type, g.flags, g.offset & f.mask, g.vaddr & f.mask, g.paddr & f.mask,
                                         g.filesz & f.mask, g.memsz & f.mask, g.align & f.mask)
        if not self.strip_shdrs:
            shentsize = f.shsize + self.shentsize_extra
            for i, s in enumerate(self.secs):
                o = self.shoff + i * shentsize
                if s.name_off is None:
                    s.name_off = self.names.get(s.name, 0)
                buf[o:o + f.shsize] = f.shdr(s.name_off, s.type, s.flags, s.addr, s.offset, s.sh_size(), s.link, s.info, s.align, s.entsize)
        if self.trailer:
            buf[self.total - len(self.trailer):] = self.trailer
        if capture.ACTIVE:
            raise capture.Captured('elf', (bytes(buf), self))
        return bytes(buf)


# --- string tables ------------------------------------------------------------------------

class StrTab:
    def __init__(self, initial=b'\0'):
        self.buf = bytearray(initial)
        self.offs = {}

    def add(self, s, share=True):
        b = s if isinstance(s, bytes) else s.encode('utf-8')
        if share and b in self.offs:
            return self.offs[b]
        if share and b == b'':
            return 0
        o = len(self.buf)
        self.buf += b + b'\0'
        self.offs[b] = o
        return o

    def bytes(self):
        return bytes(self.buf)
