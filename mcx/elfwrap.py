"""Wrap DWARF payload sections (and optional symbol/dynamic/note content) in an ELF container.
Used by C10 (model files), C11 (container transforms) and C18 (generated files)."""
import struct
import zlib

from mcx import elfgen as eg
from mcx.ref import hashes


def wrap(sections, cls=64, le=True, machine=62, etype=3, compress=None, level=6, zdebug=False, extra=None, seed=0, addresses=None, with_symbols=False,
         with_dynamic=False, with_notes=False, shstr_mode='plain'):
    """sections: {name: bytes}.  compress: None | 'gabi' (SHF_COMPRESSED + Chdr) ; zdebug: legacy .zdebug_* framing.
    extra: list of eg.Sec appended verbatim.  Returns (image bytes, Img)."""
    img = eg.Img(cls, le, machine=machine, etype=etype, seed=seed)
    f = img.f
    img.null()
    text = img.add(eg.Sec('.text', 1, data=eg.filler(seed + 1, 64), flags=6, addr=0x401000, align=16))
    segs_of = [text]
    if with_symbols:
        st = eg.StrTab()
        names = ['', 'main', 'helper', 'data_obj', 'main']
        offs = [st.add(n) for n in names]
        strtab = img.add(eg.Sec('.strtab', 3, data=st.bytes()))
        img.add(eg.Sec('.symtab', 2, data=b''.join(f.sym(offs[i], 0x401000 + 8 * i, 4 * i, (0x12 if i else 0), 0, 1 if i else 0) for i in range(len(names))),
                       link=strtab.index, info=1, entsize=f.symsize, align=8))
    if with_dynamic:
        dn = hashes.gnu_order(['', 'printf', 'aB', 'b!', 'exit'], 1, 2)
        dst = eg.StrTab()
        doffs = [dst.add(n) for n in dn]
        lib = dst.add('libc.so.6')
        dynstr = img.add(eg.Sec('.dynstr', 3, data=dst.bytes(), flags=2, addr=0x400500))
        dynsym = img.add(eg.Sec('.dynsym', 11, data=b''.join(f.sym(doffs[i], 0x402000 + i, i, 0x12 if i else 0, 0, 0) for i in range(len(dn))), flags=2,
                                addr=0x400400, link=dynstr.index, info=1, entsize=f.symsize, align=8))
        # version tables: two definitions (the second with a parent), one requirement with two versions
        o = f.o
        vnames = [dst.add(n) for n in ('libself.so.1', 'VER_2', 'VER_1', 'GLIBC_2.2.5', 'GLIBC_2.34')]
        vd = struct.pack(o + 'HHHHIII', 1, 1, 1, 1, 0x0d696911, 20, 28) + struct.pack(o + 'II', vnames[0], 0)
        vd += struct.pack(o + 'HHHHIII', 1, 0, 2, 2, 0x0d696912, 20, 0) + struct.pack(o + 'II', vnames[1], 8) + struct.pack(o + 'II', vnames[2], 0)
        vn = struct.pack(o + 'HHIII', 1, 2, lib, 16, 0) + struct.pack(o + 'IHHII', 0x09691a75, 0, 3, vnames[3], 16) + struct.pack(o + 'IHHII', 0x069691b4, 0, 4, vnames[4], 0)
        dynstr.data = dst.bytes()
        versym = img.add(eg.Sec('.gnu.version', 0x6fffffff, data=b''.join(struct.pack(o + 'H', v) for v in (0, 3, 2, 0x8004, 1)), flags=2, addr=0x400700, link=dynsym.index,
                                entsize=2, align=2))
        verdef = img.add(eg.Sec('.gnu.version_d', 0x6ffffffd, data=vd, flags=2, addr=0x400740, link=dynstr.index, info=2, align=4))
        verneed = img.add(eg.Sec('.gnu.version_r', 0x6ffffffe, data=vn, flags=2, addr=0x4007c0, link=dynstr.index, info=1, align=4))
        ghash = img.add(eg.Sec('.gnu.hash', 0x6ffffff6, data=hashes.build_gnu(dn, 1, 2, 1, 6, cls, le), flags=2, addr=0x400380, link=dynsym.index, align=8))
        shash = img.add(eg.Sec('.hash', 5, data=hashes.build_sysv(dn, 3, le), flags=2, addr=0x400300, link=dynsym.index, entsize=4, align=8))
        tags = [(1, lib), (5, 0x400500), (6, 0x400400), (10, len(dst.bytes())), (11, f.symsize), (14, lib), (0x6ffffef5, 0x400380), (4, 0x400300), (0, 0)]
        dyn = img.add(eg.Sec('.dynamic', 6, data=b''.join(f.dyn(t, v) for t, v in tags), flags=3, addr=0x403000, link=dynstr.index, entsize=f.dynsize, align=8))
        img.seg(eg.Seg(2, 6, of=dyn))
        for s_ in (dynstr, dynsym, ghash, shash, dyn):      # every dynamic pointer is mapped by a PT_LOAD (one per section: biases differ)
            img.seg(eg.Seg(1, 4, of=s_, align=8))
    if with_notes:
        o = f.o
        nd = struct.pack(o + 'III', 4, 20, 3) + b'GNU\0' + bytes(range(20)) + struct.pack(o + 'III', 4, 16, 1) + b'GNU\0' + struct.pack(o + 'IIII', 0, 3, 2, 0)
        note = img.add(eg.Sec('.note.gnu', 7, data=nd, flags=2, addr=0x400240, align=4, file_align=4))
        img.seg(eg.Seg(4, 4, of=note, align=4))
    for name, data in sections.items():
        flags = 0
        sname = name
        raw = data
        a = (addresses or {}).get(name, 0)
        if name == '.eh_frame':
            flags = 2
        elif zdebug and name.startswith('.debug_'):
            sname = '.zdebug_' + name[len('.debug_'):]
            raw = b'ZLIB' + struct.pack('>Q', len(data)) + zlib.compress(data, level)
        elif compress == 'gabi' and name.startswith('.debug_'):
            raw = f.chdr(1, len(data), 1) + zlib.compress(data, level)
            flags |= eg.SHF_COMPRESSED
        img.add(eg.Sec(sname, 1, data=raw, flags=flags, addr=a, align=1, file_align=1))
    for s in (extra or []):
        img.add(s)
    img.shstr_mode = shstr_mode
    img.add_shstrtab()
    img.seg(eg.Seg(1, 5, of=text, align=0x1000))
    return img.encode(), img
