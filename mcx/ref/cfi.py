"""Call-frame information: instruction encoder, .debug_frame / .eh_frame entry encoders and a
reference interpreter transcribed from DWARF 5 section 6.4.2 (no elftools)."""
import struct

from mcx.ref import leb

# opcodes (DWARF 5 table 7.29 + GNU)
ADV, OFF, RESTORE = 0x40, 0x80, 0xc0
NOP, SET_LOC, ADV1, ADV2, ADV4, OFF_EXT, RESTORE_EXT, UNDEF, SAME, REGISTER, REMEMBER, RESTORE_STATE, DEF_CFA, DEF_CFA_REG, DEF_CFA_OFF, DEF_CFA_EXPR, \
    EXPR, OFF_EXT_SF, DEF_CFA_SF, DEF_CFA_OFF_SF, VAL_OFF, VAL_OFF_SF, VAL_EXPR = range(0x17)
NEG_RA, ARGS_SIZE = 0x2d, 0x2e


def enc_instr(ins, dp):
    """ins = (mnemonic, *operands) -> (bytes, (opcode byte, args list as the API presents them))"""
    m = ins[0]
    a = ins[1:]
    if m == 'advance_loc':
        return bytes([ADV | a[0]]), (ADV | a[0], [a[0]])
    if m == 'offset':
        return bytes([OFF | a[0]]) + leb.uleb(a[1]), (OFF | a[0], [a[0], a[1]])
    if m == 'restore':
        return bytes([RESTORE | a[0]]), (RESTORE | a[0], [a[0]])
    simple = {'nop': NOP, 'remember_state': REMEMBER, 'restore_state': RESTORE_STATE, 'negate_ra_state': NEG_RA}
    if m in simple:
        return bytes([simple[m]]), (simple[m], [])
    if m == 'set_loc':
        return bytes([SET_LOC]) + dp.address(a[0]), (SET_LOC, [a[0]])
    if m == 'advance_loc1':
        return bytes([ADV1, a[0]]), (ADV1, [a[0]])
    if m == 'advance_loc2':
        return bytes([ADV2]) + dp.u(2, a[0]), (ADV2, [a[0]])
    if m == 'advance_loc4':
        return bytes([ADV4]) + dp.u(4, a[0]), (ADV4, [a[0]])
    uu = {'offset_extended': OFF_EXT, 'register': REGISTER, 'def_cfa': DEF_CFA, 'val_offset': VAL_OFF}
    if m in uu:
        return bytes([uu[m]]) + leb.uleb(a[0]) + leb.uleb(a[1]), (uu[m], [a[0], a[1]])
    u = {'restore_extended': RESTORE_EXT, 'undefined': UNDEF, 'same_value': SAME, 'def_cfa_register': DEF_CFA_REG, 'def_cfa_offset': DEF_CFA_OFF,
         'GNU_args_size': ARGS_SIZE}
    if m in u:
        return bytes([u[m]]) + leb.uleb(a[0]), (u[m], [a[0]])
    if m == 'def_cfa_offset_sf':
        return bytes([DEF_CFA_OFF_SF]) + leb.sleb(a[0]), (DEF_CFA_OFF_SF, [a[0]])
    us = {'offset_extended_sf': OFF_EXT_SF, 'def_cfa_sf': DEF_CFA_SF, 'val_offset_sf': VAL_OFF_SF}
    if m in us:
        return bytes([us[m]]) + leb.uleb(a[0]) + leb.sleb(a[1]), (us[m], [a[0], a[1]])
    if m == 'def_cfa_expression':
        return bytes([DEF_CFA_EXPR]) + leb.uleb(len(a[0])) + bytes(a[0]), (DEF_CFA_EXPR, [list(a[0])])
    ub = {'expression': EXPR, 'val_expression': VAL_EXPR}
    if m in ub:
        return bytes([ub[m]]) + leb.uleb(a[0]) + leb.uleb(len(a[1])) + bytes(a[1]), (ub[m], [a[0], list(a[1])])
    raise AssertionError(m)


def interpret(instrs, caf, daf, initial=None, initial_order=(), is_fde=False, pc0=0):
    """DWARF 6.4.2.  instrs: model instructions.  initial: the CIE's final row (dict) or None.
    Row: {'pc':, 'cfa': ('reg', r, off) | ('expr', bytes) | None, regs: {n: (type, arg)}}.
    Returns (rows, reg_order)."""
    cur = {'pc': pc0, 'cfa': None, 'regs': {}}
    if initial is not None:
        cur['cfa'] = initial['cfa']
        cur['regs'] = dict(initial['regs'])
    init_regs = dict(cur['regs'])
    order = list(initial_order)
    rows = []
    stack = []

    def seen(r):
        if r not in order:
            order.append(r)

    def snap():
        return {'pc': cur['pc'], 'cfa': cur['cfa'], 'regs': dict(cur['regs'])}
    for ins in instrs:
        m, a = ins[0], ins[1:]
        if m == 'set_loc':
            rows.append(snap())
            cur['pc'] = a[0]
        elif m in ('advance_loc', 'advance_loc1', 'advance_loc2', 'advance_loc4'):
            rows.append(snap())
            cur['pc'] += a[0] * caf
        elif m == 'def_cfa':
            cur['cfa'] = ('reg', a[0], a[1])
        elif m == 'def_cfa_sf':
            cur['cfa'] = ('reg', a[0], a[1] * daf)
        elif m == 'def_cfa_register':
            cur['cfa'] = ('reg', a[0], cur['cfa'][2] if cur['cfa'] and cur['cfa'][0] == 'reg' else None)
        elif m == 'def_cfa_offset':
            cur['cfa'] = ('reg', cur['cfa'][1] if cur['cfa'] and cur['cfa'][0] == 'reg' else None, a[0])
        elif m == 'def_cfa_offset_sf':
            cur['cfa'] = ('reg', cur['cfa'][1] if cur['cfa'] and cur['cfa'][0] == 'reg' else None, a[0] * daf)
        elif m == 'def_cfa_expression':
            cur['cfa'] = ('expr', list(a[0]))
        elif m == 'undefined':
            seen(a[0])
            cur['regs'][a[0]] = ('UNDEFINED', None)
        elif m == 'same_value':
            seen(a[0])
            cur['regs'][a[0]] = ('SAME_VALUE', None)
        elif m in ('offset', 'offset_extended', 'offset_extended_sf'):
            seen(a[0])
            cur['regs'][a[0]] = ('OFFSET', a[1] * daf)
        elif m in ('val_offset', 'val_offset_sf'):
            seen(a[0])
            cur['regs'][a[0]] = ('VAL_OFFSET', a[1] * daf)
        elif m == 'register':
            seen(a[0])
            cur['regs'][a[0]] = ('REGISTER', a[1])
        elif m == 'expression':
            seen(a[0])
            cur['regs'][a[0]] = ('EXPRESSION', list(a[1]))
        elif m == 'val_expression':
            seen(a[0])
            cur['regs'][a[0]] = ('VAL_EXPRESSION', list(a[1]))
        elif m in ('restore', 'restore_extended'):
            seen(a[0])
            if a[0] in init_regs:
                cur['regs'][a[0]] = init_regs[a[0]]
            else:
                cur['regs'].pop(a[0], None)
        elif m == 'remember_state':
            stack.append((cur['cfa'], dict(cur['regs'])))
        elif m == 'restore_state':
            cfa, regs = stack.pop()
            cur['cfa'], cur['regs'] = cfa, regs
    if cur['cfa'] is not None or cur['regs']:
        rows.append(snap())
    return rows, order


# ---- pointer encodings (.eh_frame) ---------------------------------------------------------------

ENC = dict(absptr=0x00, uleb128=0x01, udata2=0x02, udata4=0x03, udata8=0x04, sleb128=0x09, sdata2=0x0a, sdata4=0x0b, sdata8=0x0c)
PCREL = 0x10
OMIT = 0xff


def enc_pointer(value, enc, dp, field_address):
    """Encode `value` (an absolute address/number) with encoding byte `enc` placed at `field_address`."""
    base = enc & 0x0f
    if (enc & 0x70) == PCREL:
        value = value - field_address
    if base == ENC['absptr']:
        return dp.address(value)
    if base == ENC['uleb128']:
        return leb.uleb(value, 5)
    if base == ENC['sleb128']:
        return leb.sleb(value, 5)
    w = {2: 2, 3: 4, 4: 8, 0x0a: 2, 0x0b: 4, 0x0c: 8}[base]
    return dp.u(w, value)


def pointer_width(enc, dp):
    base = enc & 0x0f
    if base == 0:
        return dp.addr
    if base in (1, 9):
        return 5
    return {2: 2, 3: 4, 4: 8, 0x0a: 2, 0x0b: 4, 0x0c: 8}[base]
