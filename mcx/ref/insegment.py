"""binutils include/elf/internal.h ELF_SECTION_IN_SEGMENT_1(check_vma=1, strict=1), transcribed.

full()       the complete macro (64-bit unsigned arithmetic, TBSS special size, zero-size clause,
             SFRAME / MBIND segment types)
restricted() the four condition groups the property names: segment type, TLS/alloc flags,
             file extent, address extent
Cases where the two differ are outside the claimed envelope (documented TBSS limitation etc.).
"""
PT_LOAD, PT_DYNAMIC, PT_NOTE, PT_PHDR, PT_TLS = 1, 2, 4, 6, 7
PT_GNU_EH_FRAME, PT_GNU_STACK, PT_GNU_RELRO, PT_GNU_SFRAME = 0x6474e550, 0x6474e551, 0x6474e552, 0x6474e554
PT_GNU_MBIND_LO, PT_GNU_MBIND_HI = 0x6474e555, 0x6474e555 + 4095
SHF_ALLOC, SHF_TLS = 2, 0x400
SHT_NOBITS = 8
M = (1 << 64) - 1


def _core(sh_type, sh_flags, sh_addr, sh_offset, sh_size, p_type, p_offset, p_vaddr, p_filesz, p_memsz, full):
    tls = sh_flags & SHF_TLS
    alloc = sh_flags & SHF_ALLOC
    size = sh_size
    if full and tls and sh_type == SHT_NOBITS and p_type != PT_TLS:
        size = 0
    if not ((tls and p_type in (PT_TLS, PT_GNU_RELRO, PT_LOAD)) or (not tls and p_type not in (PT_TLS, PT_PHDR))):
        return False
    allocsegs = [PT_LOAD, PT_DYNAMIC, PT_GNU_EH_FRAME, PT_GNU_STACK, PT_GNU_RELRO]
    if not alloc and (p_type in allocsegs or (full and (p_type == PT_GNU_SFRAME or PT_GNU_MBIND_LO <= p_type <= PT_GNU_MBIND_HI))):
        return False
    if sh_type != SHT_NOBITS:
        if not (sh_offset >= p_offset and (sh_offset - p_offset) <= ((p_filesz - 1) & M)
                and (sh_offset - p_offset + size) <= p_filesz):
            return False
    if alloc:
        if not (sh_addr >= p_vaddr and (sh_addr - p_vaddr) <= ((p_memsz - 1) & M)
                and (sh_addr - p_vaddr + size) <= p_memsz):
            return False
    if full:
        if not ((p_type != PT_DYNAMIC and p_type != PT_NOTE) or sh_size != 0 or p_memsz == 0
                or ((sh_type == SHT_NOBITS or (sh_offset > p_offset and (sh_offset - p_offset) < p_filesz))
                    and (not alloc or (sh_addr > p_vaddr and (sh_addr - p_vaddr) < p_memsz)))):
            return False
    return True


def full(**kw):
    return _core(full=True, **kw)


def restricted(**kw):
    return _core(full=False, **kw)
