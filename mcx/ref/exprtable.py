"""DWARF expression operations: operand signatures from DWARF 5 section 7.7.1 (table 7.9) and the GNU /
WebAssembly extension descriptions; encoder and value classes.  Not derived from elftools."""
import struct

from mcx.ref import leb

N = []          # no operands
OPS = {
    0x03: ('DW_OP_addr', ['addr']), 0x06: ('DW_OP_deref', N),
    0x08: ('DW_OP_const1u', ['u1']), 0x09: ('DW_OP_const1s', ['s1']), 0x0a: ('DW_OP_const2u', ['u2']), 0x0b: ('DW_OP_const2s', ['s2']),
    0x0c: ('DW_OP_const4u', ['u4']), 0x0d: ('DW_OP_const4s', ['s4']), 0x0e: ('DW_OP_const8u', ['u8']), 0x0f: ('DW_OP_const8s', ['s8']),
    0x10: ('DW_OP_constu', ['uleb']), 0x11: ('DW_OP_consts', ['sleb']), 0x12: ('DW_OP_dup', N), 0x13: ('DW_OP_drop', N), 0x14: ('DW_OP_over', N),
    0x15: ('DW_OP_pick', ['u1']), 0x16: ('DW_OP_swap', N), 0x17: ('DW_OP_rot', N), 0x18: ('DW_OP_xderef', N), 0x19: ('DW_OP_abs', N),
    0x1a: ('DW_OP_and', N), 0x1b: ('DW_OP_div', N), 0x1c: ('DW_OP_minus', N), 0x1d: ('DW_OP_mod', N), 0x1e: ('DW_OP_mul', N), 0x1f: ('DW_OP_neg', N),
    0x20: ('DW_OP_not', N), 0x21: ('DW_OP_or', N), 0x22: ('DW_OP_plus', N), 0x23: ('DW_OP_plus_uconst', ['uleb']), 0x24: ('DW_OP_shl', N),
    0x25: ('DW_OP_shr', N), 0x26: ('DW_OP_shra', N), 0x27: ('DW_OP_xor', N), 0x28: ('DW_OP_bra', ['s2']), 0x29: ('DW_OP_eq', N), 0x2a: ('DW_OP_ge', N),
    0x2b: ('DW_OP_gt', N), 0x2c: ('DW_OP_le', N), 0x2d: ('DW_OP_lt', N), 0x2e: ('DW_OP_ne', N), 0x2f: ('DW_OP_skip', ['s2']),
    0x90: ('DW_OP_regx', ['uleb']), 0x91: ('DW_OP_fbreg', ['sleb']), 0x92: ('DW_OP_bregx', ['uleb', 'sleb']), 0x93: ('DW_OP_piece', ['uleb']),
    0x94: ('DW_OP_deref_size', ['u1']), 0x95: ('DW_OP_xderef_size', ['u1']), 0x96: ('DW_OP_nop', N), 0x97: ('DW_OP_push_object_address', N),
    0x98: ('DW_OP_call2', ['u2']), 0x99: ('DW_OP_call4', ['u4']), 0x9a: ('DW_OP_call_ref', ['offset']), 0x9b: ('DW_OP_form_tls_address', N),
    0x9c: ('DW_OP_call_frame_cfa', N), 0x9d: ('DW_OP_bit_piece', ['uleb', 'uleb']), 0x9e: ('DW_OP_implicit_value', ['block']),
    0x9f: ('DW_OP_stack_value', N), 0xa0: ('DW_OP_implicit_pointer', ['offset', 'sleb']), 0xa1: ('DW_OP_addrx', ['uleb']),
    0xa2: ('DW_OP_constx', ['uleb']), 0xa3: ('DW_OP_entry_value', ['expr']), 0xa4: ('DW_OP_const_type', ['uleb', 'tblock']),
    0xa5: ('DW_OP_regval_type', ['uleb', 'uleb']), 0xa6: ('DW_OP_deref_type', ['u1', 'uleb']), 0xa7: ('DW_OP_xderef_type', ['u1', 'uleb']),
    0xa8: ('DW_OP_convert', ['uleb']), 0xa9: ('DW_OP_reinterpret', ['uleb']),
    # GNU / WebAssembly extensions the library names
    0xe0: ('DW_OP_GNU_push_tls_address', N), 0xf0: ('DW_OP_GNU_uninit', N), 0xf2: ('DW_OP_GNU_implicit_pointer', ['offset', 'sleb']),
    0xf3: ('DW_OP_GNU_entry_value', ['expr']), 0xf4: ('DW_OP_GNU_const_type', ['uleb', 'tblock']), 0xf5: ('DW_OP_GNU_regval_type', ['uleb', 'uleb']),
    0xf6: ('DW_OP_GNU_deref_type', ['u1', 'uleb']), 0xf7: ('DW_OP_GNU_convert', ['uleb']), 0xfa: ('DW_OP_GNU_parameter_ref', ['u4']),
    0xed: ('DW_OP_WASM_location', ['wasm']),
}
for _i in range(32):
    OPS[0x30 + _i] = ('DW_OP_lit%d' % _i, N)
    OPS[0x50 + _i] = ('DW_OP_reg%d' % _i, N)
    OPS[0x70 + _i] = ('DW_OP_breg%d' % _i, ['sleb'])

STANDARD = sorted(c for c in OPS if c < 0xe0)


class P:
    """Parameters sizing addr/offset operands."""

    def __init__(self, le, fmt, addr):
        self.le, self.fmt, self.addr = le, fmt, addr
        self.o = '<' if le else '>'


def enc_operand(kind, v, p, pad=0):
    o = p.o
    if kind in ('u1', 's1'):
        return struct.pack('b' if kind[0] == 's' else 'B', v)
    if kind in ('u2', 's2'):
        return struct.pack(o + ('h' if kind[0] == 's' else 'H'), v)
    if kind in ('u4', 's4'):
        return struct.pack(o + ('i' if kind[0] == 's' else 'I'), v)
    if kind in ('u8', 's8'):
        return struct.pack(o + ('q' if kind[0] == 's' else 'Q'), v)
    if kind == 'uleb':
        return leb.uleb(v, pad)
    if kind == 'sleb':
        return leb.sleb(v, pad)
    if kind == 'addr':
        return v.to_bytes(p.addr, 'little' if p.le else 'big')
    if kind == 'offset':
        return v.to_bytes(p.fmt // 8, 'little' if p.le else 'big')
    if kind == 'block':
        return leb.uleb(len(v), pad) + bytes(v)
    if kind == 'tblock':
        return bytes([len(v)]) + bytes(v)
    if kind == 'expr':
        b = enc_expr(v, p)
        return leb.uleb(len(b), pad) + b
    if kind == 'wasm':
        k, x = v
        return bytes([k]) + (leb.uleb(x, pad) if k <= 2 else struct.pack(o + 'I', x))
    raise AssertionError(kind)


def enc_op(op, p, pad=0):
    code, args = op
    out = bytes([code])
    for kind, v in zip(OPS[code][1], args):
        out += enc_operand(kind, v, p, pad)
    return out


def enc_expr(ops, p, pad=0):
    return b''.join(enc_op(op, p, pad) for op in ops)


def values(kind, p):
    """Boundary value classes of one operand kind."""
    if kind[0] in 'us' and kind[1:].isdigit():
        bits = 8 * int(kind[1:])
        if kind[0] == 'u':
            return [0, 1, (1 << bits) - 1, 1 << (bits - 1), (1 << (bits - 1)) - 1]
        return [0, 1, -1, -(1 << (bits - 1)), (1 << (bits - 1)) - 1]
    if kind == 'uleb':
        return [0, 1, 127, 128, 0x3fff, 0x4000, (1 << 32) - 1, 1 << 32, (1 << 64) - 1]
    if kind == 'sleb':
        return [0, 1, -1, 63, 64, -64, -65, (1 << 31) - 1, -(1 << 31), (1 << 63) - 1, -(1 << 63)]
    if kind == 'addr':
        return [0, 1, (1 << (8 * p.addr)) - 1, 1 << (8 * p.addr - 1)]
    if kind == 'offset':
        return [0, 1, (1 << p.fmt) - 1, 0x1234]
    if kind == 'block':
        return [[], [0], list(range(127)), [(i * 7) & 0xff for i in range(128)], [(i * 3) & 0xff for i in range(300)]]
    if kind == 'tblock':
        return [[], [0xff], [i & 0xff for i in range(255)]]
    if kind == 'expr':
        return [[], [(0x96, [])], [(0x30, []), (0x23, [300]), (0x9f, [])], [(0x50, [])], [(0x03, [1])]]
    if kind == 'wasm':
        return [(0, 0), (1, 300), (2, 1), (3, 0), (3, 0xffffffff), (0, (1 << 32) - 1)]
    raise AssertionError(kind)


def representative(code, p):
    """One fixed operand tuple per operation (used for pairs/triples)."""
    rep = {'u1': 0x80, 's1': -2, 'u2': 0x8001, 's2': -300, 'u4': 0x80000001, 's4': -70000, 'u8': (1 << 63) + 5, 's8': -(1 << 40), 'uleb': 300, 'sleb': -300,
           'addr': (1 << (8 * p.addr)) - 2, 'offset': (1 << p.fmt) - 3, 'block': [1, 2, 3], 'tblock': [9, 8], 'expr': [(0x31, []), (0x91, [-8])], 'wasm': (1, 5)}
    return (code, [rep[k] for k in OPS[code][1]])
