"""The name rule of DESIGN.md 2.2 for enumerated codes.

check(kind, ctx, code, reported) -> None | (expected, observed)
  * a reported string must map to `code` in a registry when a registry knows the string,
    else in one of the library's exported tables of that kind; processor-range names must
    carry the infix of the file's machine;
  * a reported integer must equal `code`, and `code` must not be one that the pinned
    library reported under a registry-confirmed name in this context (losing a name alarms,
    gaining one never does).
"""
import json
import os

ROOT = os.path.dirname(os.path.dirname(os.path.dirname(os.path.abspath(__file__))))
_PIN = None
_REG = None
_LIB = {}

MACHINE_INFIX = {40: ('ARM',), 183: ('AARCH64',), 8: ('MIPS',), 243: ('RISCV',), 62: ('X86_64', 'AMD64'),
                 21: ('PPC64', 'PPC'), 20: ('PPC',), 2: ('SPARC',), 15: ('PARISC', 'HP'), 50: ('IA_64',), 0x9026: ('ALPHA',),
                 164: ('HEXAGON',)}
ALL_INFIX = sorted({i for v in MACHINE_INFIX.values() for i in v}, key=len, reverse=True)
_PROC_PREFIX = ('SHT_', 'PT_', 'DT_')


def _load():
    global _PIN, _REG
    if _PIN is None:
        _PIN = json.load(open(os.path.join(ROOT, 'registry', 'pinned_named_codes.json')))
        from mcx.props.c17 import registry
        _REG = registry()


def _lib_tables(kind):
    if kind in _LIB:
        return _LIB[kind]
    import elftools.elf.enums as ee
    import elftools.dwarf.enums as de
    pre = {'e_type': 'ENUM_E_TYPE', 'e_machine': 'ENUM_E_MACHINE', 'e_version': 'ENUM_E_VERSION', 'osabi': 'ENUM_EI_OSABI',
           'sh_type': 'ENUM_SH_TYPE', 'p_type': 'ENUM_P_TYPE', 'd_tag': 'ENUM_D_TAG', 'st_bind': 'ENUM_ST_INFO_BIND',
           'st_type': 'ENUM_ST_INFO_TYPE', 'st_visibility': 'ENUM_ST_VISIBILITY', 'st_shndx': 'ENUM_ST_SHNDX',
           'ch_type': 'ENUM_ELFCOMPRESS_TYPE', 'n_type': 'ENUM_NOTE_N_TYPE', 'n_type_core': 'ENUM_CORE_NOTE_N_TYPE',
           'DW_TAG': 'ENUM_DW_TAG', 'DW_AT': 'ENUM_DW_AT', 'DW_FORM': 'ENUM_DW_FORM', 'DW_LNCT': 'ENUM_DW_LNCT',
           'DW_UT': 'ENUM_DW_UT', 'DW_LLE': 'ENUM_DW_LLE', 'DW_RLE': 'ENUM_DW_RLE', 'versym': 'ENUM_VERSYM',
           'st_local': 'ENUM_ST_LOCAL', 'boundto': 'ENUM_SUNW_SYMINFO_BOUNDTO', 'abi_os': 'ENUM_NOTE_ABI_TAG_OS',
           'prop_type': 'ENUM_NOTE_GNU_PROPERTY_TYPE'}[kind]
    ts = []
    for mod in (ee, de):
        for n in dir(mod):
            if n.startswith(pre) and isinstance(getattr(mod, n), dict):
                ts.append(getattr(mod, n))
    if kind == 'd_tag':
        for t in getattr(ee, 'ENUMMAP_EXTRA_D_TAG_MACHINE', {}).values():
            ts.append(t)
    _LIB[kind] = ts
    return ts


def pinned_name(kind, ctx, code):
    _load()
    k = _PIN.get(kind, {})
    d = k.get(str(ctx))
    if d is None:
        d = k.get('*')
    if d is None:
        # unknown machine context: fall back to the generic (EM_NONE) context
        d = k.get('0') or k.get('0:0') or {}
    return d.get(str(code))


def check(kind, ctx, code, reported, machine=None):
    _load()
    if isinstance(reported, str):
        if reported in _REG:
            if code not in _REG[reported]:
                return ('a name whose registry value is %#x' % code, reported)
        else:
            if not any(t.get(reported) == code for t in _lib_tables(kind)):
                return ('a name the library tables map to %#x' % code, reported)
        if machine is not None and reported.startswith(_PROC_PREFIX):
            body = reported.split('_', 1)[1]
            for inf in ALL_INFIX:
                if body.startswith(inf + '_'):
                    if inf not in MACHINE_INFIX.get(machine, ()):
                        return ('no %s-specific name under e_machine %d' % (inf, machine), reported)
                    break
        return None
    if reported != code:
        return (code, reported)
    pn = pinned_name(kind, ctx, code)
    if pn is not None:
        return (pn, reported)
    return None
