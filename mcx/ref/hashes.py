"""SysV and GNU symbol hash tables: hash functions (gABI ch.5 / glibc dl_new_hash),
table construction and reference lookup.  No elftools."""
import struct


def sysv_hash(name):
    b = name if isinstance(name, bytes) else name.encode('utf-8')
    h = 0
    for c in b:
        h = ((h << 4) + c) & 0xffffffff
        g = h & 0xf0000000
        if g:
            h ^= g >> 24
        h &= ~g & 0xffffffff
    return h


def gnu_hash(name):
    b = name if isinstance(name, bytes) else name.encode('utf-8')
    h = 5381
    for c in b:
        h = (h * 33 + c) & 0xffffffff
    return h


def build_sysv(names, nbucket, le, descending=False, hashed_from=1):
    """names[i] = name of symbol i (symbol 0 is the null symbol, never hashed)."""
    n = len(names)
    buckets = [0] * nbucket
    chains = [0] * n
    order = range(hashed_from, n)
    if descending:
        order = reversed(list(order))
    for i in order:
        b = sysv_hash(names[i]) % nbucket
        # append at the tail of the chain
        if buckets[b] == 0:
            buckets[b] = i
        else:
            j = buckets[b]
            while chains[j]:
                j = chains[j]
            chains[j] = i
    o = '<' if le else '>'
    return struct.pack(o + 'II', nbucket, n) + struct.pack(o + '%dI' % nbucket, *buckets) + struct.pack(o + '%dI' % n, *chains)


def gnu_sort_key(name, nbuckets):
    return gnu_hash(name) % nbuckets


def build_gnu(names, symoffset, nbuckets, bloom_size, bloom_shift, cls, le):
    """names must already be ordered so that names[symoffset:] is grouped by bucket
    (use gnu_order).  Returns the section bytes."""
    n = len(names)
    bits = cls
    bloom = [0] * bloom_size
    buckets = [0] * nbuckets
    chain = []
    for i in range(symoffset, n):
        h = gnu_hash(names[i])
        bloom[(h // bits) % bloom_size] |= (1 << (h % bits)) | (1 << ((h >> bloom_shift) % bits))
        b = h % nbuckets
        if buckets[b] == 0:
            buckets[b] = i
        last = (i == n - 1) or (gnu_hash(names[i + 1]) % nbuckets != b)
        chain.append((h & ~1) | (1 if last else 0))
    o = '<' if le else '>'
    X = 'I' if cls == 32 else 'Q'
    return (struct.pack(o + 'IIII', nbuckets, symoffset, bloom_size, bloom_shift) + struct.pack(o + '%d%s' % (bloom_size, X), *bloom)
            + struct.pack(o + '%dI' % nbuckets, *buckets) + struct.pack(o + '%dI' % len(chain), *chain))


def gnu_order(names, symoffset, nbuckets, descending=False):
    """Stable reorder of names[symoffset:] by bucket.  The format needs the symbols of one bucket to be contiguous; linkers lay the groups out in
    ascending bucket order, `descending` lays them out the other way round (lookups work the same, the highest chain start is then bucket 0's)."""
    head = list(names[:symoffset])
    tail = sorted(names[symoffset:], key=lambda s: gnu_hash(s) % nbuckets, reverse=False)
    if descending:
        tail = sorted(tail, key=lambda s: -(gnu_hash(s) % nbuckets))
    return head + tail
