"""LEB128 per DWARF 5 section 7.6 — reference encoders/decoders (no elftools)."""


def uleb(v, pad_to=0):
    assert v >= 0
    out = bytearray()
    while True:
        b = v & 0x7f
        v >>= 7
        if v or len(out) + 1 < pad_to:
            out.append(b | 0x80)
        else:
            out.append(b)
            return bytes(out)


def sleb(v, pad_to=0):
    out = bytearray()
    while True:
        b = v & 0x7f
        v >>= 7
        done = (v == 0 and not b & 0x40) or (v == -1 and b & 0x40)
        if done and len(out) + 1 >= pad_to:
            out.append(b)
            return bytes(out)
        out.append(b | 0x80)


def uleb_decode(buf, pos=0):
    """-> (value, next_pos) or None if the encoding runs off the end of buf."""
    v = 0
    shift = 0
    n = len(buf)
    while pos < n:
        b = buf[pos]
        pos += 1
        v += (b & 0x7f) << shift
        shift += 7
        if b < 0x80:
            return v, pos
    return None


def sleb_decode(buf, pos=0):
    r = uleb_decode(buf, pos)
    if r is None:
        return None
    v, end = r
    nbits = 7 * (end - pos)
    if v >> (nbits - 1):            # sign bit = bit 6 of the last byte
        v -= 1 << nbits
    return v, end
