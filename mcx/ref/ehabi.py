"""ARM EHABI (IHI 0038B section 9.3, table 4) unwind byte-code: reference disassembler using
the wording of LLVM's ARMEHABIPrinter (the strings readelf-style tools print), and prel31."""

GPR = ("r0", "r1", "r2", "r3", "r4", "r5", "r6", "r7", "r8", "r9", "r10", "fp", "ip", "sp", "lr", "pc")


def _gpr(mask):
    return '{%s}' % ', '.join(GPR[i] for i in range(16) if mask >> i & 1)


def _regs(mask, prefix):
    return '{%s}' % ', '.join('%s%d' % (prefix, i) for i in range(32) if mask >> i & 1)


def _range(start, count):
    return ((1 << (count + 1)) - 1) << start


def decode(bc):
    """-> list of (bytes_of_opcode, mnemonic), or None if the sequence ends inside a multi-byte opcode."""
    out = []
    i = 0
    n = len(bc)
    while i < n:
        b = bc[i]
        s = i
        if b & 0xc0 == 0x00:
            m = 'vsp = vsp + %u' % (((b & 0x3f) << 2) + 4)
            i += 1
        elif b & 0xc0 == 0x40:
            m = 'vsp = vsp - %u' % (((b & 0x3f) << 2) + 4)
            i += 1
        elif b & 0xf0 == 0x80:
            if i + 1 >= n:
                return None
            mask = (bc[i + 1] << 4) | ((b & 0x0f) << 12)
            m = 'refuse to unwind' if mask == 0 else 'pop %s' % _gpr(mask)
            i += 2
        elif b == 0x9d:
            m = 'reserved (ARM MOVrr)'
            i += 1
        elif b == 0x9f:
            m = 'reserved (WiMMX MOVrr)'
            i += 1
        elif b & 0xf0 == 0x90:
            m = 'vsp = r%u' % (b & 0x0f)
            i += 1
        elif b & 0xf8 == 0xa0:
            m = 'pop %s' % _gpr(_range(4, b & 7))
            i += 1
        elif b & 0xf8 == 0xa8:
            m = 'pop %s' % _gpr(_range(4, b & 7) | (1 << 14))
            i += 1
        elif b == 0xb0:
            m = 'finish'
            i += 1
        elif b == 0xb1:
            if i + 1 >= n:
                return None
            o = bc[i + 1]
            m = 'spare' if (o & 0xf0) or o == 0 else 'pop %s' % _gpr(o & 0x0f)
            i += 2
        elif b == 0xb2:
            j = i + 1
            v = 0
            sh = 0
            while True:
                if j >= n:
                    return None
                v |= (bc[j] & 0x7f) << sh
                sh += 7
                j += 1
                if not bc[j - 1] & 0x80:
                    break
            m = 'vsp = vsp + %u' % (0x204 + (v << 2))
            i = j
        elif b == 0xb3 or b == 0xc9:
            if i + 1 >= n:
                return None
            o = bc[i + 1]
            m = 'pop %s' % _regs(_range(o >> 4, o & 0x0f), 'd')
            i += 2
        elif b & 0xfc == 0xb4:
            m = 'spare'
            i += 1
        elif b & 0xf8 == 0xb8 or b & 0xf8 == 0xd0:
            m = 'pop %s' % _regs(_range(8, b & 7), 'd')
            i += 1
        elif b == 0xc6:
            if i + 1 >= n:
                return None
            o = bc[i + 1]
            m = 'pop %s' % _regs(_range(o >> 4, o & 0x0f), 'wR')
            i += 2
        elif b == 0xc7:
            if i + 1 >= n:
                return None
            o = bc[i + 1]
            m = 'spare' if (o & 0xf0) or o == 0 else 'pop %s' % _regs(o & 0x0f, 'wCGR')
            i += 2
        elif b == 0xc8:
            if i + 1 >= n:
                return None
            o = bc[i + 1]
            m = 'pop %s' % _regs(_range(16 + (o >> 4), o & 0x0f), 'd')
            i += 2
        elif b & 0xf8 == 0xc0:          # 0xc0..0xc5 (c6, c7 handled above)
            m = 'pop %s' % _regs(_range(10, b & 7), 'wR')
            i += 1
        else:
            m = 'spare'
            i += 1
        out.append((list(bc[s:i]), m))
    return out


def prel31(word, place):
    """31-bit place-relative offset, sign-extended from bit 30."""
    v = word & 0x7fffffff
    if v & 0x40000000:
        v -= 0x80000000
    return v + place


def enc_prel31(target, place):
    return (target - place) & 0x7fffffff
