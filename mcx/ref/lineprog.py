"""DWARF line-number programs: header encoder (versions 2-5) and a reference state machine
transcribed from DWARF 5 section 6.2.5 (no elftools)."""
from mcx.ref import leb

STD_LENGTHS = [0, 1, 1, 1, 1, 0, 0, 0, 1, 0, 0, 1]
LNCT = dict(path=1, directory_index=2, timestamp=3, size=4, MD5=5)
FORM = dict(block=0x09, data1=0x0b, data2=0x05, data4=0x06, data8=0x07, udata=0x0f, string=0x08, strp=0x0e, line_strp=0x1f, data16=0x1e)


class Header:
    def __init__(self, version=4, min_inst=1, max_ops=1, default_is_stmt=1, line_base=-5, line_range=14, opcode_base=13, std_lengths=None,
                 dirs=(b'/usr/include',), files=((b'a.c', 0, 0, 0),), dir_format=(('path', 'string'),), file_format=(('path', 'string'), ('directory_index', 'udata')),
                 v5_dirs=None, v5_files=None, slack=0, address_size=None, seg_size=0):
        self.version = version
        self.min_inst, self.max_ops, self.default_is_stmt = min_inst, max_ops, default_is_stmt
        self.line_base, self.line_range, self.opcode_base = line_base, line_range, opcode_base
        if std_lengths is None:
            std_lengths = (STD_LENGTHS + [0] * 32)[:max(opcode_base - 1, 0)]
        self.std_lengths = list(std_lengths)
        self.dirs, self.files = list(dirs), list(files)
        self.dir_format, self.file_format = list(dir_format), list(file_format)
        self.v5_dirs = v5_dirs      # list of dict content->value (model values)
        self.v5_files = v5_files
        self.slack = slack
        self.address_size = address_size
        self.seg_size = seg_size


def enc_form_value(form, v, dp, strtabs):
    """-> (bytes, expected decoded value)"""
    if form == 'string':
        return v + b'\0', v
    if form in ('strp', 'line_strp'):
        o = strtabs.add(v, 'str' if form == 'strp' else 'line_str')
        return dp.off(o), v
    if form == 'udata':
        return leb.uleb(v), v
    if form in ('data1', 'data2', 'data4', 'data8'):
        w = int(form[4:])
        return dp.u(w, v), v & ((1 << (8 * w)) - 1)
    if form == 'data16':
        return bytes(v), list(v)
    if form == 'block':
        return leb.uleb(len(v)) + bytes(v), list(v)
    raise AssertionError(form)


def encode(h, program, dp, strtabs):
    """-> (bytes of the whole unit, expectation dict for the decoded header)"""
    body = bytearray()
    body += bytes([h.min_inst])
    if h.version >= 4:
        body += bytes([h.max_ops])
    body += bytes([h.default_is_stmt, h.line_base & 0xff, h.line_range, h.opcode_base])
    body += bytes(h.std_lengths)
    exp = {}
    if h.version >= 5:
        def table(fmt, entries):
            out = bytes([len(fmt)])
            for ct, form in fmt:
                out += leb.uleb(LNCT[ct]) + leb.uleb(FORM[form])
            out += leb.uleb(len(entries))
            dec = []
            for e in entries:
                d = {}
                for ct, form in fmt:
                    b, val = enc_form_value(form, e[ct], dp, strtabs)
                    out += b
                    d['DW_LNCT_' + ct] = val
                dec.append(d)
            return out, dec
        b, exp['directories'] = table(h.dir_format, h.v5_dirs)
        body += b
        b, exp['file_names'] = table(h.file_format, h.v5_files)
        body += b
        exp['directory_entry_format'] = [(LNCT[c], FORM[f]) for c, f in h.dir_format]
        exp['file_name_entry_format'] = [(LNCT[c], FORM[f]) for c, f in h.file_format]
    else:
        for d in h.dirs:
            body += d + b'\0'
        body += b'\0'
        for name, di, mt, ln in h.files:
            body += name + b'\0' + leb.uleb(di) + leb.uleb(mt) + leb.uleb(ln)
        body += b'\0'
        exp['include_directory'] = list(h.dirs)
        exp['file_entry'] = [dict(name=n, dir_index=d, mtime=m, length=l) for n, d, m, l in h.files]
    body += b'\xa5' * h.slack
    header_length = len(body)
    pre = dp.u(2, h.version)
    if h.version >= 5:
        pre += bytes([h.address_size if h.address_size is not None else dp.addr, h.seg_size])
    rest = pre + dp.off(header_length) + bytes(body) + bytes(program)
    unit = dp.initial_length(len(rest)) + rest
    exp.update(unit_length=len(rest), version=h.version, header_length=header_length, minimum_instruction_length=h.min_inst,
               maximum_operations_per_instruction=(h.max_ops if h.version >= 4 else 1), default_is_stmt=h.default_is_stmt, line_base=h.line_base,
               line_range=h.line_range, opcode_base=h.opcode_base, standard_opcode_lengths=list(h.std_lengths))
    if h.version >= 5:
        exp.update(address_size=h.address_size if h.address_size is not None else dp.addr, segment_selector_size=h.seg_size)
    return unit, exp


REGS = ('address', 'op_index', 'file', 'line', 'column', 'is_stmt', 'basic_block', 'end_sequence', 'prologue_end', 'epilogue_begin', 'isa', 'discriminator')


def _new(h):
    return dict(address=0, op_index=0, file=1, line=1, column=0, is_stmt=bool(h.default_is_stmt), basic_block=False, end_sequence=False,
                prologue_end=False, epilogue_begin=False, isa=0, discriminator=0)


def run(prog, h, addr_size, le, v5=False):
    """Reference execution of the program bytes under header h.  Returns (rows, defined_files)."""
    rows = []
    files = []
    st = _new(h)
    max_ops = h.max_ops if h.version >= 4 else 1
    i = 0
    n = len(prog)

    def emit():
        rows.append(tuple(st[r] for r in REGS))
        st['discriminator'] = 0
        st['basic_block'] = st['prologue_end'] = st['epilogue_begin'] = False

    def advance(op_adv):
        st['address'] += h.min_inst * ((st['op_index'] + op_adv) // max_ops)
        st['op_index'] = (st['op_index'] + op_adv) % max_ops
    while i < n:
        op = prog[i]
        i += 1
        if op >= h.opcode_base:
            adj = op - h.opcode_base
            advance(adj // h.line_range)
            st['line'] += h.line_base + adj % h.line_range
            emit()
        elif op == 0:
            ln, i = leb.uleb_decode(prog, i)
            end = i + ln
            sub = prog[i]
            if sub == 1:
                st['end_sequence'] = True
                emit()
                st = _new(h)
            elif sub == 2:
                st['address'] = int.from_bytes(prog[i + 1:i + 1 + addr_size], 'little' if le else 'big')
                st['op_index'] = 0
            elif sub == 3 and not v5:
                j = prog.index(b'\0', i + 1)
                name = bytes(prog[i + 1:j])
                d, j = leb.uleb_decode(prog, j + 1)
                m, j = leb.uleb_decode(prog, j)
                l, j = leb.uleb_decode(prog, j)
                files.append(dict(name=name, dir_index=d, mtime=m, length=l))
            elif sub == 4:
                st['discriminator'], _ = leb.uleb_decode(prog, i + 1)
            i = end
        elif op == 1:
            emit()
        elif op == 2:
            v, i = leb.uleb_decode(prog, i)
            advance(v)
        elif op == 3:
            v, i = leb.sleb_decode(prog, i)
            st['line'] += v
        elif op == 4:
            st['file'], i = leb.uleb_decode(prog, i)
        elif op == 5:
            st['column'], i = leb.uleb_decode(prog, i)
        elif op == 6:
            st['is_stmt'] = not st['is_stmt']
        elif op == 7:
            st['basic_block'] = True
        elif op == 8:
            advance((255 - h.opcode_base) // h.line_range)
        elif op == 9:
            st['address'] += int.from_bytes(prog[i:i + 2], 'little' if le else 'big')
            st['op_index'] = 0
            i += 2
        elif op == 10:
            st['prologue_end'] = True
        elif op == 11:
            st['epilogue_begin'] = True
        elif op == 12:
            st['isa'], i = leb.uleb_decode(prog, i)
        else:
            for _ in range(h.std_lengths[op - 1]):
                _, i = leb.uleb_decode(prog, i)
    return rows, files
