#!/bin/bash
# Re-runs every mutants/*.patch against its property's CURRENT quick check (no suite run; the suite column of the existing
# mutants/RESULTS.md is kept) and rewrites the verdict / first-report columns.  4 at a time.
cd "$(dirname "$0")/.." || exit 2
mkdir -p scratch/mut
ls mutants/C*.patch | xargs -P 4 -I{} sh -c 'm={}; id=$(basename $m | cut -c1-3); timeout 1500 tools/mutant.sh $m $id 2>&1 | tail -1 > scratch/mut/$(basename $m .patch).line'
/venv/bin/python - <<'PY'
import re, os, glob
old = {}
for l in open('mutants/RESULTS.md'):
    c = [x.strip() for x in l.split('|')]
    if len(c) > 5 and c[1].startswith('C'):
        old[c[1]] = c[3]
rows = []
miss = 0
for f in sorted(glob.glob('scratch/mut/*.line')):
    name = os.path.basename(f)[:-5]
    line = open(f).read().strip()
    rc = re.search(r' rc=(\d+) ', line)
    first = line.split(':: ', 1)[-1][:140].replace('|', '/')
    det = rc and rc.group(1) == '1'
    miss += not det
    rows.append('| %s | %s | %s | %s | %s |' % (name, name[:3], old.get(name, '?'), 'detected' if det else 'MISSED(%s)' % (line[:60]), first))
hdr = ['# Detection record for the hand-written mutants', '',
       'Each patch is applied to a scratch copy of /repo (tools/mutant.sh) and the property\'s quick check is run against the copy (rc=1 = VIOLATION reported). The suite column',
       '(green = 111 passed as on the unchanged tree) comes from tools/run_all_mutants.sh, which also runs the pinned suite on each patched copy; verdicts were last refreshed by',
       'tools/rerun_mutants_detection.sh against the current checks.', '', '| mutant | check | suite | verdict | first report |', '|---|---|---|---|---|']
open('mutants/RESULTS.md', 'w').write('\n'.join(hdr + rows) + '\n\n%d mutants, %d not detected.\n' % (len(rows), miss))
print(len(rows), 'mutants;', miss, 'not detected')
PY
