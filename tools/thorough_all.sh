#!/bin/bash
# Runs every thorough check in turn (each uses all cores), evidence to evidence/thorough/, one summary line per property in scratch/thorough.log
cd "$(dirname "$0")/.." || exit 2
mkdir -p scratch evidence/thorough
: > scratch/thorough.log
for id in ${@:-C17 C11 C13 C07 C15 C12 C16 C02 C20 C14 C19 C06 C04 C03 C08 C01 C09 C05 C18 C10}; do
  t0=$(date +%s)
  out=$(VERIF_EVIDENCE_DIR=$PWD/evidence/thorough ./check $id --tier thorough 2>&1); rc=$?
  echo "$id rc=$rc secs=$(( $(date +%s) - t0 )) :: $(echo "$out" | tail -1)" >> scratch/thorough.log
  echo "$out" | grep -B1 "^VIOLATION\|HARNESS" | head -20 >> scratch/thorough.log
done
echo DONE >> scratch/thorough.log
