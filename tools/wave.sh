#!/bin/bash
# tools/wave.sh <dir with patch.diff demo.py notes.txt> [extra check IDs,comma separated]
# Files one independently written change: reads PROPERTY / SUMMARY / NEEDS from notes.txt, pre-creates seeded/<id>/meta.json with them and hands over to tools/seeded.sh.
set -u
src=$(readlink -f "$1"); extra=${2:-}
prop=$(sed -n 's/^PROPERTY: *\(C[0-9][0-9]\).*/\1/p' "$src/notes.txt" | head -1)
[ -z "$prop" ] && { echo "no PROPERTY line in $src/notes.txt"; exit 3; }
name=$(basename "$src")
sid="$prop-$name"
mkdir -p /verif/seeded/$sid
/venv/bin/python - "$src/notes.txt" "/verif/seeded/$sid/meta.json" "$sid" "$prop" <<'PY'
import json, sys, re, os
notes = open(sys.argv[1]).read()
def grab(k):
    m = re.search(r'^%s: *(.*)$' % k, notes, re.M)
    return m.group(1).strip() if m else ''
p = sys.argv[2]
old = json.load(open(p)) if os.path.exists(p) else {}
old.update({'id': sys.argv[3], 'breaks_property': sys.argv[4], 'summary': grab('SUMMARY'), 'needs_to_manifest': grab('NEEDS'), 'wave': 5})
json.dump(old, open(p, 'w'), indent=1, sort_keys=True)
PY
exec /verif/tools/seeded.sh "$src" "$sid" "$prop" "$extra"
