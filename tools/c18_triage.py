"""Triage helper (not a registered check): every failing execution of C18's generated spaces, grouped.
usage: PYTHONHASHSEED=0 /venv/bin/python tools/c18_triage.py <k> <generator indices, comma separated | lc> [--full]"""
import json, os, re, sys, multiprocessing as mp
sys.path.insert(0, os.path.dirname(os.path.dirname(os.path.abspath(__file__))))
sys.path.insert(0, os.environ.get('VERIF_REPO', '/repo'))
from mcx import core
from mcx.props import c18_generated as g

K = int(sys.argv[1]) if len(sys.argv) > 1 else 1


def dfs(prefix):
    out = []
    n = 0
    stack = [tuple(prefix)]
    while stack:
        p = stack.pop()
        ch = core.Chooser(p)
        case = g.run_generated(ch)
        n += 1
        tr = ch.trace
        if case.fails:
            out.append({'labels': list(ch.labels), 'choices': ch.choices(), 'fails': [(f[0], f[2]) for f in case.fails], 'outcome': case.outcome})
        cost = sum(1 for t in tr[:len(p)] if t[3] and t[2])
        for i in range(len(tr) - 1, len(p) - 1, -1):
            name, nn, c, costed = tr[i]
            if nn < 2 or (costed and cost + 1 > K):
                continue
            head = tuple(t[2] for t in tr[:i])
            for alt in range(nn - 1, 0, -1):
                stack.append(head + (alt,))
    return n, out


def lc(part):
    out = []
    n = 0
    for i, item in enumerate(g._lc_gen('quick')()):
        if i % 64 != part:
            continue
        fails, matched, sts, data, outside = g._lc_check(item)
        n += 1
        if fails:
            out.append({'labels': [json.dumps(item)], 'fails': [(f[0], f[2]) for f in fails], 'outcome': sts})
    return n, out


def norm(s):
    s = re.sub(r'0x[0-9a-f]+|\b[0-9a-f]{4,}\b|\d+', 'N', s.lower())
    return s[:160]


if __name__ == '__main__':
    which = sys.argv[2] if len(sys.argv) > 2 else 'all'
    res = []
    total = 0
    if which == 'regroup':
        import pickle
        total, res = pickle.load(open('/tmp/c18_triage_last.pkl', 'rb'))
    with mp.get_context('fork').Pool(16) as pool:
        if which == 'regroup':
            pass
        elif which == 'lc':
            for n, r in pool.map(lc, range(64)):
                total += n
                res += r
        else:
            gens = range(11) if which == 'all' else [int(x) for x in which.split(',')]
            roots = []
            for gi in gens:
                ch = core.Chooser((gi,))
                g.run_generated(ch)
                tr = ch.trace
                # fix the generator's first two choice points (free ones): 4 roots per generator when they are class x order
                n1 = tr[1][1] if len(tr) > 1 and not tr[1][3] else 1
                n2 = tr[2][1] if len(tr) > 2 and not tr[2][3] and n1 > 1 else 1
                for a in range(n1):
                    for b in range(n2):
                        roots.append((gi, a, b) if n2 > 1 else ((gi, a) if n1 > 1 else (gi,)))
            for n, r in pool.map(dfs, roots):
                total += n
                res += r
    import pickle
    if which != 'regroup':
        pickle.dump((total, res), open('/tmp/c18_triage_last.pkl', 'wb'))
    from mcx import findings
    known = findings.load('C18')
    groups = {}
    nknown = 0
    for r in res:
        for path, detail in r['fails'][:1]:
            if findings.match(known, 'generated-elf-dwarf' if which != 'lc' else 'generated-line-cfi', r['labels'], path, core._short(detail)) is not None:
                nknown += 1
                continue
            key = (path, norm(detail.split('\n', 1)[-1] if detail.startswith('Mismatch on line') else detail))
            groups.setdefault(key, []).append(r)
    print('executions', total, 'failing', len(res), 'matching known findings', nknown, 'groups', len(groups))
    for (path, nd), rs in sorted(groups.items(), key=lambda kv: -len(kv[1])):
        print('-' * 100)
        print('%4d x  %s' % (len(rs), path))
        labs = {}
        for r in rs:
            for l in r['labels']:
                if not l.startswith('generator='):
                    labs[l] = labs.get(l, 0) + 1
        common = [l for l, c in labs.items() if c == len(rs)]
        print('   common labels:', common, '| e.g.', rs[0]['labels'][:6])
        d = [f[1] for f in rs[0]['fails'] if f[0] == path][0]
        print('   ' + d[:(2000 if '--full' in sys.argv else 420)].replace('\n', '\n   '))
