"""Triage helper (not a registered check): dumps every failing execution of C18's generated spaces with its full detail.
usage: PYTHONHASHSEED=0 /venv/bin/python tools/c18_triage.py [k] > /tmp/triage.jsonl"""
import json, os, sys, multiprocessing as mp
sys.path.insert(0, os.path.dirname(os.path.dirname(os.path.abspath(__file__))))
sys.path.insert(0, os.environ.get('VERIF_REPO', '/repo'))
from mcx import core
from mcx.props import c18_generated as g

K = int(sys.argv[1]) if len(sys.argv) > 1 else 1


def dfs(prefix):
    out = []
    stack = [tuple(prefix)]
    while stack:
        p = stack.pop()
        ch = core.Chooser(p)
        case = g.run_generated(ch)
        tr = ch.trace
        if case.fails:
            out.append({'labels': list(ch.labels), 'choices': ch.choices(), 'fails': [(f[0], f[2]) for f in case.fails], 'outcome': case.outcome})
        cost = sum(1 for t in tr[:len(p)] if t[3] and t[2])
        for i in range(len(tr) - 1, len(p) - 1, -1):
            name, n, c, costed = tr[i]
            if n < 2 or (costed and cost + 1 > K):
                continue
            head = tuple(t[2] for t in tr[:i])
            for alt in range(n - 1, 0, -1):
                stack.append(head + (alt,))
    return out


def lc(part):
    out = []
    for i, item in enumerate(g._lc_gen('quick')()):
        if i % 64 != part:
            continue
        fails, matched, sts, data, outside = g._lc_check(item)
        if fails:
            out.append({'labels': [json.dumps(item)], 'fails': [(f[0], f[2]) for f in fails], 'outcome': sts})
    return out


if __name__ == '__main__':
    roots = []
    for gi in range(11):
        ch = core.Chooser((gi,))
        g.run_generated(ch)
        # split on the generator's first two choice points
        n1 = ch.trace[1][1] if len(ch.trace) > 1 else 1
        for a in range(n1):
            roots.append((gi, a))
    with mp.get_context('fork').Pool(16) as pool:
        # roots (gi, a) overlap with (gi,) DFS: run DFS only below the second choice fixed (free or not)
        res = pool.map(dfs_fixed := None or dfs, roots) if False else None
    print('unused', file=sys.stderr)
