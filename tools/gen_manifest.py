#!/usr/bin/env python3
"""Regenerates /verif/MANIFEST.json from the table below (only properties whose module exists are claimed)."""
import json
import os

ROOT = os.path.dirname(os.path.dirname(os.path.abspath(__file__)))

E1 = 'bounded-exhaustive choice-point exploration of generated inputs (deviation bound k) replayed against a reference model'
CHECKS = {
 'C01': ('model_checking', E1, '3.C01'),
 'C02': ('model_checking', E1 + '; complete geometry products', '3.C02'),
 'C03': ('model_checking', E1 + '; reference-built hash tables, complete query sets', '3.C03'),
 'C04': ('model_checking', E1 + '; complete form x value-class x parameter product', '3.C04'),
 'C05': ('model_checking', 'all opcode sequences up to length L over a fixed alphabet x header deviations, vs a transcription of the DWARF line state machine', '3.C05'),
 'C06': ('model_checking', 'all CFA instruction sequences up to length L x section-shape deviations, vs a transcription of DWARF 6.4', '3.C06'),
 'C07': ('model_checking', E1, '3.C07'),
 'C08': ('model_checking', E1 + '; all RELR word sequences up to length L; complete (machine,type) product', '3.C08'),
 'C09': ('model_checking', E1 + '; three container views of one model compared', '3.C09'),
 'C10': ('model_checking', 'explicit-state exploration of API-call histories on the real objects: all histories up to length 2, fingerprinted BFS with adversarial stream repositioning, and the complete iterator-interleaving family; oracle = the same query on a fresh object in a pristine process', '3.C10'),
 'C11': ('model_checking', 'complete product of payloads x container transforms x class/order/level/follow_links; relational oracle (dump equality)', '3.C11'),
 'C12': ('model_checking', 'complete products over the opcode table (all ops x operand classes, all ordered pairs, triples over a sub-alphabet, nesting) with re-encoding oracle', '3.C12'),
 'C13': ('model_checking', E1 + '; complete query sets (every boundary address, every section offset)', '3.C13'),
 'C14': ('model_checking', E1 + '; section view vs segment view', '3.C14'),
 'C15': ('model_checking', E1 + '; complete index query sets', '3.C15'),
 'C16': ('model_checking', 'exhaustive enumeration of finite encoding spaces (every byte string <=3, boundary values x paddings x truncations) vs arithmetic definitions', '3.C16'),
 'C17': ('exploration', 'exhaustive finite-table comparison of every exported constant against vendored registries, a vendored snapshot of registry-confirmed names that must stay exported, and consistency of every derived map', '3.C17'),
 'C18': ('exploration', 'bounded-exhaustive differential enumeration against GNU readelf 2.40 with the project\'s documented tolerances: corpus x options, one probe file per description-table value, files from the model generators of the other properties (deviation bound k), line/CFI/dump families; plus all ordered pairs/triples of (option, file) calls in one interpreter against the fresh-interpreter output', '3.C18'),
 'C19': ('fault_enumeration', 'exhaustive fault enumeration (every truncation, every header byte substitution, every field fault and header field-fault pair) with a deterministic work meter', '3.C19'),
 'C20': ('model_checking', E1 + '; every byte-code sequence of length <= 2', '3.C20'),
}
TEXT = {
 'C10': 'Every API-call history of length <= 2 over an alphabet derived from the file (natural cursors), every history of the iterator-interleaving family (each iterator suspended after 1 or 2 items x every other event, resumed twice; each pair of iterators stepped alternately), and a breadth-first search over fingerprinted object-graph states with explicit stream scrambling and a foreign-file event, on three model files and the vendored corpus files; every transition is compared with the same event on a fresh object computed in a pristine interpreter.',
 'C18': 'Every (corpus file, option) pair; one synthesized file per value of every description table; every file the model generators of C01/C03/C04/C07/C08/C09/C13/C14/C15/C20 produce with at most k deviations (k = 1 quick, 2 thorough) and the C05/C06 line/CFI families and a dump family, each compared with GNU readelf under the frozen comparison function of the project. What is outside the envelope is decided mechanically (oracle warns / prints its unknown-value rendering, the clone prints its own, non-ASCII output) and counted. Recorded deviations are listed one by one in known_findings.json. Space 4: every ordered pair (and triple over a smaller set) of main(option, file) calls over corpus files of different machines executed in one interpreter must print, for the last call, what a fresh interpreter prints (module-global state such as _MACHINE_ARCH).',
 'C19': 'Every truncation length, every substitution of the first 64 bytes, every boundary value of every header / section / segment / dynamic / note / hash / version field, every pair of header field faults, and truncation combined with the extended-numbering escapes, on four synthesized seeds and the vendored corpus files; construction may only raise the ELF error type; the enumeration battery runs on a metering stream (deterministic work bound), under an address-space limit and a wall-clock backstop.',
 'C16': 'Every byte string of length <=3 (x tails, x truncation) through both LEB128 decoders, all boundary values at every padding and truncation, 24-bit and fixed-width integers, strings 0..300, blocks, initial length: complete finite products, so a pass is a statement about every input in those spaces, not a sample.',
 'C17': 'Every exported (table,name,value) pair whose name a registry defines is compared; the space is finite and enumerated completely.',
}
NOTE = {
 'C10': 'Trusted: CPython; the fingerprint walk (instance dicts, containers, stream positions, suspended generator frames). Histories longer than the stated bounds, arguments that are not valid for the file, and concurrent use are outside the claim. Thorough-tier deep searches are time-capped and say so in caps_hit.',
 'C18': 'Trusted: /usr/bin/readelf (GNU binutils 2.40; the project pins 2.41 - drift limited to the closed list c18_oracle_drift.json), vendor/compare_output.py (frozen copy of the project\'s comparison), LC_ALL=C.UTF-8. Files outside the stated generators and bounds are outside the claim.',
 'C19': 'Trusted: CPython, the metering stream and the mini ELF reader that locates fields (mcx/minielf.py). Time is a deterministic work bound (operations <= 64*len+4096, bytes <= 64*len+65536), memory is peak-RSS growth <= 64*len+256 MiB under RLIMIT_AS 4 GiB; faults beyond the stated classes are outside the claim.',
 'C16': 'Trusted: CPython integer arithmetic; reference LEB128 in mcx/ref/leb.py. Values beyond the stated boundary set and strings longer than 4 bytes without a terminating byte are outside the bound.',
 'C17': 'Trusted: vendored extracts of glibc elf.h and LLVM 14 headers (registry/registry.json) plus registry/abi_documents.json; names no registry defines are counted, not judged.',
}


def main():
    checks = []
    na = []
    for i in range(1, 21):
        pid = 'C%02d' % i
        lvl, tech, ref = CHECKS[pid]
        if not os.path.exists(os.path.join(ROOT, 'mcx', 'props', pid.lower() + '.py')):
            na.append({'property_id': pid, 'reason': 'check not built yet at this commit (planned: DESIGN.md section %s); nothing is claimed for it' % ref})
            continue
        checks.append({
            'property_id': pid,
            'quick_cmd': './check %s --tier quick' % pid,
            'thorough_cmd': './check %s --tier thorough' % pid,
            'evidence_file': '/verif/evidence/%s.json' % pid,
            'replay_cmd_template': './check %s --replay {path}' % pid,
            'engine': 'mcx',
            'level_claimed': {'category': lvl, 'text': TEXT.get(pid, 'Bounded-exhaustive: every input the stated builder produces within the deviation bound / every sequence up to the stated length is executed on the real code and compared with an independent reference model.'), 'design_ref': 'DESIGN.md ' + ref},
            'level_note': NOTE.get(pid, 'Trusted: CPython, struct, zlib, the reference models under mcx/ref and the encoders in mcx/*gen.py (no elftools imports). Inputs beyond the stated alphabets and deviation bound are outside the claim.'),
            'technique': tech,
        })
    man = {
        'version': 1,
        'setup_cmd': './check --selftest',
        'hooks': {'guard': 'PYELFTOOLS_VERIF',
                  'enable': 'no hooks are needed: checks import the working tree of /repo directly (VERIF_REPO, default /repo) in fresh processes',
                  'baseline_off_cmd': 'cd /repo && /venv/bin/python -m pytest -ra -q -p no:cacheprovider --timeout=900 --continue-on-collection-errors',
                  'source_commits': [], 'add_only': True},
        'engines': [{'name': 'mcx', 'path': '/verif/mcx', 'serves_properties': [c['property_id'] for c in checks],
                     'kind_free_text': 'home-made explicit exploration engines in Python run directly on the implementation: E1 deviation-bounded choice-point explorer (mcx/core.py), E2 explicit-state history explorer (mcx/history.py), E3 finite enumerators; reference models in mcx/ref'}],
        'checks': checks,
        'notes': 'All checks: cwd=/verif, honour VERIF_SEED / VERIF_TIER / VERIF_REPO; exit 0 ok, 1 + VIOLATION lines, 2 harness error. Known findings: known_findings.json (open C18 deviations, each keyed by probe / generator label; fixed: list of the fix: commits). Thorough-tier evidence of the last full run: evidence/thorough/. Detection record: mutants/RESULTS.md (hand-written) and seeded/README.md (independently written changes, all detected).',
        'not_applicable': na,
    }
    with open(os.path.join(ROOT, 'MANIFEST.json'), 'w') as f:
        json.dump(man, f, indent=1)
        f.write('\n')
    print('claimed:', [c['property_id'] for c in checks])


if __name__ == '__main__':
    main()
