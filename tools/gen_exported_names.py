#!/usr/bin/env python3
"""Writes registry/exported_confirmed_names.json: every (table, name) the library exports NOW whose name a vendored registry defines
with that value.  C17 then requires each of them to stay exported: a standard name that disappears (renamed, misspelt, dropped) no longer
selects its standard code.  Regenerate only after reviewing the diff (a disappearing line is exactly what the check alarms on)."""
import json, os, sys
ROOT = os.path.dirname(os.path.dirname(os.path.abspath(__file__)))
sys.path.insert(0, ROOT)
sys.path.insert(0, os.environ.get('VERIF_REPO', '/repo'))
from mcx.props import c17
reg = c17.registry()
out = sorted([t, n] for t, n, v in c17.exported_pairs() if not c17._excluded(n) and n in reg and v in reg[n])
json.dump({'comment': 'registry-confirmed names exported by the library when this file was generated (tools/gen_exported_names.py)', 'names': out},
          open(os.path.join(ROOT, 'registry', 'exported_confirmed_names.json'), 'w'), indent=0)
print(len(out), 'names')
