#!/usr/bin/env python3
"""tools/mkmut.py <name> <file-relative-to-repo> <old> <new> [count]  -> mutants/<name>.patch (exact string replacement)"""
import difflib, sys, os
name, rel, old, new = sys.argv[1:5]
cnt = int(sys.argv[5]) if len(sys.argv) > 5 else 1
src = open('/repo/' + rel).read()
assert src.count(old) >= 1, 'old string not found'
if cnt == 1:
    assert src.count(old) == 1, 'old string occurs %d times' % src.count(old)
dst = src.replace(old, new)
d = difflib.unified_diff(src.splitlines(True), dst.splitlines(True), 'a/' + rel, 'b/' + rel)
out = os.path.join(os.path.dirname(os.path.dirname(os.path.abspath(__file__))), 'mutants', name + '.patch')
open(out, 'a' if os.environ.get('APPEND') else 'w').write(''.join(d))
print(out)
