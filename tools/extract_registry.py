#!/usr/bin/env python3
"""Extract (name -> value) registries from the headers present in the image:
glibc /usr/include/elf.h, LLVM 14 BinaryFormat/ELF.h, ELFRelocs/*.def, DynamicTags.def,
Dwarf.def.  Output: /verif/registry/<source>.json {name: value} with provenance.
Run manually (and by the thorough tier of C17 to confirm the vendored copy)."""
import glob
import json
import os
import re
import sys

LLVM = '/usr/lib/llvm-14/include/llvm/BinaryFormat'
OUT = os.path.join(os.path.dirname(os.path.dirname(os.path.abspath(__file__))), 'registry')


def strip_comments(s):
    s = re.sub(r'/\*.*?\*/', ' ', s, flags=re.S)
    s = re.sub(r'//[^\n]*', '', s)
    return s


def c_eval(expr, ns):
    e = expr.strip()
    e = re.sub(r'\b(0[xX][0-9a-fA-F]+|\d+)[uUlL]+\b', r'\1', e)
    e = re.sub(r'\(\s*(unsigned|int|long|Elf\d+_\w+|uint\d+_t|unsigned\s+int)\s*\)', '', e)
    e = re.sub(r'\b0+(\d)', r'\1', e) if re.fullmatch(r'0\d+', e) else e
    if not re.fullmatch(r"[\w\s()|&+\-*<>~^/']+", e):
        return None
    try:
        v = eval(e, {'__builtins__': {}}, ns)
    except Exception:
        return None
    return v if isinstance(v, int) and not isinstance(v, bool) else None


def glibc_elf_h(path='/usr/include/elf.h'):
    txt = strip_comments(open(path, errors='replace').read()).replace('\\\n', ' ')
    ns, out = {}, {}
    for m in re.finditer(r'^[ \t]*#[ \t]*define[ \t]+([A-Za-z_]\w*)[ \t]+(.+)$', txt, flags=re.M):
        name, expr = m.group(1), m.group(2)
        if '(' in name:
            continue
        v = c_eval(expr, ns)
        if v is not None:
            ns[name] = v
            out[name] = v
    return out


def llvm_elf_h(path=LLVM + '/ELF.h'):
    txt = strip_comments(open(path).read())
    ns, out = {}, {}
    for m in re.finditer(r'^\s*([A-Za-z_]\w*)\s*=\s*([^,\n;{}]+?)\s*,?\s*$', txt, flags=re.M):
        name, expr = m.group(1), m.group(2)
        v = c_eval(expr, ns)
        if v is not None:
            ns[name] = v
            out[name] = v
    return out


def llvm_relocs():
    out = {}
    for f in sorted(glob.glob(LLVM + '/ELFRelocs/*.def')):
        txt = strip_comments(open(f).read())
        for m in re.finditer(r'ELF_RELOC\(\s*(\w+)\s*,\s*([^)]+)\)', txt):
            v = c_eval(m.group(2), {})
            if v is not None:
                out.setdefault(os.path.basename(f)[:-4], {})[m.group(1)] = v
    return out


def llvm_dyntags(path=LLVM + '/DynamicTags.def'):
    txt = strip_comments(open(path).read())
    out = {}
    for m in re.finditer(r'^\s*(\w*DYNAMIC_TAG\w*)\(\s*(\w+)\s*,\s*([^)]+)\)', txt, flags=re.M):
        if m.group(2) in ('name',):
            continue
        v = c_eval(m.group(3), {})
        if v is not None:
            out['DT_' + m.group(2)] = v
    return out


def llvm_dwarf(path=LLVM + '/Dwarf.def'):
    txt = strip_comments(open(path).read())
    out = {}
    pref = {'DW_TAG': 'DW_TAG_', 'DW_AT': 'DW_AT_', 'DW_FORM': 'DW_FORM_', 'DW_OP': 'DW_OP_', 'DW_LANG': 'DW_LANG_',
            'DW_ATE': 'DW_ATE_', 'DW_VIRTUALITY': 'DW_VIRTUALITY_', 'DW_DEFAULTED': 'DW_DEFAULTED_', 'DW_CC': 'DW_CC_',
            'DW_LNS': 'DW_LNS_', 'DW_LNE': 'DW_LNE_', 'DW_LNCT': 'DW_LNCT_', 'DW_MACRO': 'DW_MACRO_',
            'DW_MACRO_GNU': 'DW_MACRO_GNU_', 'DW_RLE': 'DW_RLE_', 'DW_LLE': 'DW_LLE_', 'DW_CFA': 'DW_CFA_',
            'DW_CFA_PRED': 'DW_CFA_', 'DW_APPLE_PROPERTY': 'DW_APPLE_PROPERTY_', 'DW_UT': 'DW_UT_',
            'DW_IDX': 'DW_IDX_', 'DW_END': 'DW_END_'}
    for m in re.finditer(r'^\s*HANDLE_(DW_\w+?)\(\s*(0x[0-9a-fA-F]+|\d+)\s*,\s*(\w+)', txt, flags=re.M):
        kind, val, name = m.group(1), m.group(2), m.group(3)
        if kind in pref and name != 'NAME':
            out[pref[kind] + name] = int(val, 0)
    return out


def extract():
    reg = {'glibc_elf_h': glibc_elf_h(), 'llvm_ELF_h': llvm_elf_h(), 'llvm_DynamicTags_def': llvm_dyntags(),
           'llvm_Dwarf_def': llvm_dwarf()}
    for arch, d in llvm_relocs().items():
        reg['llvm_ELFRelocs_' + arch] = d
    return reg


if __name__ == '__main__':
    reg = extract()
    if '--check' in sys.argv:
        old = json.load(open(os.path.join(OUT, 'registry.json')))['sources']
        sys.exit(0 if old == reg else 1)
    os.makedirs(OUT, exist_ok=True)
    with open(os.path.join(OUT, 'registry.json'), 'w') as f:
        json.dump({'provenance': {'glibc_elf_h': '/usr/include/elf.h (glibc 2.36, Debian 12)',
                                  'llvm_*': '/usr/lib/llvm-14/include/llvm/BinaryFormat (LLVM 14.0.6)'},
                   'sources': reg}, f, indent=0, sort_keys=True)
    print({k: len(v) for k, v in reg.items()}, sum(len(v) for v in reg.values()))
