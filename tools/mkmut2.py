#!/usr/bin/env python3
"""tools/mkmut2.py <name> <file> <old1> <new1> [<old2> <new2> ...] -> one patch with several exact replacements in one file;
   repeat with APPEND=1 for further files."""
import difflib, sys, os
name, rel = sys.argv[1:3]
pairs = sys.argv[3:]
src = open('/repo/' + rel).read()
dst = src
for i in range(0, len(pairs), 2):
    old, new = pairs[i], pairs[i + 1]
    assert dst.count(old) == 1, ('occurrences', dst.count(old), old[:60])
    dst = dst.replace(old, new)
d = difflib.unified_diff(src.splitlines(True), dst.splitlines(True), 'a/' + rel, 'b/' + rel)
out = os.path.join(os.path.dirname(os.path.dirname(os.path.abspath(__file__))), 'mutants', name + '.patch')
open(out, 'a' if os.environ.get('APPEND') else 'w').write(''.join(d))
print(out)
