#!/bin/bash
# Runs every mutants/<ID>-*.patch against its property's quick check (and the pinned suite) and rewrites mutants/RESULTS.md
cd "$(dirname "$0")/.." || exit 2
out=mutants/RESULTS.md
{
echo "# Detection record for the hand-written mutants"
echo
echo "Each patch is applied to a scratch copy of /repo (tools/mutant.sh), the pinned suite is run there (green = 111 passed as on the unchanged tree) and the property's quick check is run against the copy (rc=1 = VIOLATION reported)."
echo
echo '| mutant | check | suite | verdict | first report |'
echo '|---|---|---|---|---|'
for m in mutants/C*.patch; do
  id=$(basename $m | cut -c1-3)
  line=$(timeout 1500 tools/mutant.sh $m $id --suite 2>&1 | tail -1)
  rc=$(echo "$line" | sed -n 's/.* rc=\([0-9]*\) .*/\1/p')
  suite=$(echo "$line" | sed -n 's/.*suite=\([A-Za-z]*\).*/\1/p')
  first=$(echo "$line" | sed 's/.*:: //' | cut -c1-140 | tr '|' '/')
  echo "| $(basename $m .patch) | $id | ${suite:-?} | $([ "$rc" = 1 ] && echo detected || echo "MISSED(rc=$rc)") | $first |"
done
} > $out.tmp
mv $out.tmp $out
