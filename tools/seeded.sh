#!/bin/bash
# tools/seeded.sh <deliverable dir with patch.diff + demo.py> <seeded id> <property ID> [extra IDs,...]
# Confirms an independently written property-breaking change and files it under seeded/<id>/:
#   1. scratch copy of /repo (outside /repo and /verif), patch applied with git apply semantics (patch -p1)
#   2. pinned suite on the patched copy: must give 111 passed
#   3. demo.py on the pristine copy: must exit 0; on the patched copy: must exit non-zero
#   4. the quick checks named (property ID first) against the patched copy
# Writes seeded/<id>/{patch.diff, demo.py, notes.txt, meta.json}.  Nothing is ever applied to /repo here.
set -u
src=$(readlink -f "$1"); sid=$2; prop=$3; extra=${4:-}
S=/dev/shm/seed.$$; mkdir -p $S
trap 'rm -rf $S' EXIT
# the demonstrations name their author's worktree; make them use the current directory instead
sed -E "s#'/tmp/wt/[ab][0-9]+'#__import__('os').getcwd()#g" "$src/demo.py" > $S/demo.py
rsync -a --exclude .git --exclude '*.pyc' --exclude __pycache__ /repo/ $S/clean/
rsync -a $S/clean/ $S/repo/
if ! (cd $S/repo && patch -p1 -s < "$src/patch.diff"); then echo "PATCH-FAILED"; exit 3; fi
suite=$(cd $S/repo && timeout 400 /venv/bin/python -m pytest -q -p no:cacheprovider --timeout=900 --continue-on-collection-errors 2>&1 | tail -1)
(cd $S/clean && PYTHONPATH=$S/clean timeout 300 /venv/bin/python $S/demo.py >$S/demo_clean.out 2>&1); dc=$?
(cd $S/repo && PYTHONPATH=$S/repo timeout 300 /venv/bin/python $S/demo.py >$S/demo_patched.out 2>&1); dp=$?
echo "suite: $suite"
echo "demo clean rc=$dc patched rc=$dp"
tail -3 $S/demo_patched.out
: > $S/verdicts.tsv
for id in $prop ${extra//,/ }; do
  out=$(cd /verif && VERIF_REPO=$S/repo VERIF_EVIDENCE_DIR=$S/ev VERIF_REPLAY_DIR=$S/rp ./check $id --tier quick 2>&1); rc=$?
  first=$(echo "$out" | grep -B1 '^VIOLATION' | head -1 | cut -c1-240 | tr '\t' ' ')
  printf '%s\t%s\t%s\n' "$id" "$rc" "$first" >> $S/verdicts.tsv
  echo "check $id rc=$rc :: $first"
done
d=/verif/seeded/$sid; mkdir -p $d
cp "$src/patch.diff" $d/patch.diff; cp $S/demo.py $d/demo.py; [ -f "$src/notes.txt" ] && cp "$src/notes.txt" $d/notes.txt
/venv/bin/python - "$d" "$sid" "$prop" "$suite" "$dc" "$dp" $S/verdicts.tsv <<'EOF'
import json, sys, os
d, sid, prop, suite, dc, dp = sys.argv[1:7]
checks = {}
for line in open(sys.argv[7]):
    i, rc, first = line.rstrip('\n').split('\t')
    checks[i] = {'exit': int(rc), 'first_report': first.strip()}
old = {}
if os.path.exists(d + '/meta.json'):
    old = json.load(open(d + '/meta.json'))
meta = {
    'id': sid, 'breaks_property': prop,
    'needs_to_manifest': old.get('needs_to_manifest', ''),
    'summary': old.get('summary', ''),
    'origin': 'sub-agent given only the property text and a scratch worktree',
    'confirmed': {
        'pinned_suite_on_patched_copy': suite.strip(),
        'demo_exit_on_pristine_copy': int(dc), 'demo_exit_on_patched_copy': int(dp),
        'how': 'tools/seeded.sh: scratch copies under /dev/shm, patch -p1, pinned pytest command, demo.py with PYTHONPATH=<copy>, ./check <ID> --tier quick with VERIF_REPO=<patched copy>',
    },
    'quick_checks': checks,
    'detected_by': sorted(k for k, v in checks.items() if v['exit'] == 1),
}
json.dump(meta, open(d + '/meta.json', 'w'), indent=1, sort_keys=True)
print('wrote', d + '/meta.json', 'detected_by', meta['detected_by'])
EOF
