#!/venv/bin/python
"""One-off (manual) generator: runs the C18 description-table probes and prints known-finding entries for
every mismatch, for review before they are pasted into known_findings.json.  Never run by a check."""
import sys, json, re
sys.path.insert(0, '/repo'); sys.path.insert(1, '/verif')
import multiprocessing as mp
from mcx.props import c18_tables as T

def f(d):
    return d, T._run(d)

if __name__ == '__main__':
    cs = list(T.cases())
    with mp.get_context('fork').Pool(16) as p:
        res = p.map(f, cs, chunksize=8)
    out = []
    for d, (st, det) in res:
        if st not in ('mismatch', 'ours-failed'):
            continue
        lines = [l for l in det.splitlines() if l.startswith('>>')]
        if st == 'mismatch' and len(lines) >= 2:
            what = 'readelf.py differs from GNU readelf for %s value %r (machine %s): GNU "%s" vs readelf.py "%s"' % (d[0], d[2], d[1], lines[0][2:-2].strip()[:90], lines[1][2:-2].strip()[:90])
        else:
            what = 'readelf.py differs from GNU readelf for %s value %r (machine %s): %s' % (d[0], d[2], d[1], det.replace('\n', ' ')[:160])
        path = '%s value %r (machine %s)' % (d[0], d[2], d[1])
        out.append({'property': 'C18', 'status': 'open', 'what': what, 'match': {'space': 'description-tables', 'path': '^' + re.escape(path) + '$'}})
    json.dump(out, sys.stdout, indent=1)
