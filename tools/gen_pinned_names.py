#!/venv/bin/python
"""One-off generator (run on the pinned tree): for every enumeration kind and context,
which codes the pinned library reports under a name that a registry confirms.
Output registry/pinned_named_codes.json is vendored and used ONLY to detect the loss
of a standard name (a code that used to be named must not come back as a raw integer)."""
import io, json, os, struct, sys
sys.path.insert(0, os.environ.get('VERIF_REPO', '/repo'))
ROOT = os.path.dirname(os.path.dirname(os.path.abspath(__file__)))
sys.path.insert(1, ROOT)
from mcx.props.c17 import registry
from elftools.elf.structs import ELFStructs
from elftools.common.utils import struct_parse
import elftools.elf.enums as ee
import elftools.dwarf.enums as de

reg = registry()
MACHINES = [0, 3, 8, 10, 20, 21, 22, 40, 62, 183, 243, 247, 258, 0x1234]
M_NAME = {v: k for k, v in ee.ENUM_E_MACHINE.items() if isinstance(v, int)}
OS_NAME = {v: k for k, v in ee.ENUM_EI_OSABI.items() if isinstance(v, int)}


def candidates(prefixes, tables):
    c = set()
    for n, vals in reg.items():
        if n.startswith(prefixes):
            c.update(v for v in vals if 0 <= v < 1 << 32)
    for t in tables:
        c.update(v for k, v in t.items() if isinstance(v, int))
    return sorted(c)


def confirmed(name, code):
    return isinstance(name, str) and name in reg and code in reg[name]


def structs(machine=62, osabi=0, etype=3, cls=64):
    st = ELFStructs(little_endian=True, elfclass=cls)
    st.create_basic_structs()
    st.create_advanced_structs(ee_name(ee.ENUM_E_TYPE, etype), M_NAME.get(machine, machine), OS_NAME.get(osabi, osabi))
    return st


def ee_name(table, code):
    for k, v in table.items():
        if v == code:
            return k
    return code


out = {}
# header-level enums via Ehdr
st = structs()
def ehdr(e_type=3, e_machine=62, e_version=1, osabi=0, ei_version=1):
    ident = b'\x7fELF' + bytes([2, 1, ei_version, osabi, 0]) + b'\0' * 7
    return ident + struct.pack('<HHIQQQIHHHHHH', e_type, e_machine, e_version, 0, 0, 0, 0, 64, 0, 0, 0, 0, 0)
k = out.setdefault('e_type', {}).setdefault('*', {})
for c in candidates(('ET_',), [ee.ENUM_E_TYPE]):
    if c < 65536:
        n = struct_parse(st.Elf_Ehdr, io.BytesIO(ehdr(e_type=c)))['e_type']
        if confirmed(n, c): k[str(c)] = n
k = out.setdefault('e_machine', {}).setdefault('*', {})
for c in candidates(('EM_',), [ee.ENUM_E_MACHINE]):
    if c < 65536:
        n = struct_parse(st.Elf_Ehdr, io.BytesIO(ehdr(e_machine=c)))['e_machine']
        if confirmed(n, c): k[str(c)] = n
k = out.setdefault('e_version', {}).setdefault('*', {})
for c in (0, 1, 2):
    n = struct_parse(st.Elf_Ehdr, io.BytesIO(ehdr(e_version=c)))['e_version']
    if confirmed(n, c): k[str(c)] = n
k = out.setdefault('osabi', {}).setdefault('*', {})
for c in range(256):
    n = struct_parse(st.Elf_Ehdr, io.BytesIO(ehdr(osabi=c)))['e_ident']['EI_OSABI']
    if confirmed(n, c): k[str(c)] = n

sh_tables = [getattr(ee, t) for t in dir(ee) if t.startswith('ENUM_SH_TYPE')]
p_tables = [getattr(ee, t) for t in dir(ee) if t.startswith('ENUM_P_TYPE')]
d_tables = [getattr(ee, t) for t in dir(ee) if t.startswith('ENUM_D_TAG')]
for m in MACHINES:
    st = structs(machine=m)
    k = out.setdefault('sh_type', {}).setdefault(str(m), {})
    for c in candidates(('SHT_',), sh_tables):
        n = struct_parse(st.Elf_Shdr, io.BytesIO(struct.pack('<IIQQQQIIQQ', 0, c, 0, 0, 0, 0, 0, 0, 0, 0)))['sh_type']
        if confirmed(n, c): k[str(c)] = n
    k = out.setdefault('p_type', {}).setdefault(str(m), {})
    for c in candidates(('PT_',), p_tables):
        n = struct_parse(st.Elf_Phdr, io.BytesIO(struct.pack('<IIQQQQQQ', c, 0, 0, 0, 0, 0, 0, 0)))['p_type']
        if confirmed(n, c): k[str(c)] = n
    for osabi in (0, 6):
        st2 = structs(machine=m, osabi=osabi)
        k = out.setdefault('d_tag', {}).setdefault('%d:%d' % (m, osabi), {})
        for c in candidates(('DT_',), d_tables):
            cc = c if c < 1 << 63 else c - (1 << 64)
            n = struct_parse(st2.Elf_Dyn, io.BytesIO(struct.pack('<qQ', cc, 0)))['d_tag']
            if confirmed(n, c): k[str(c)] = n
st = structs()
kb = out.setdefault('st_bind', {}).setdefault('*', {})
kt = out.setdefault('st_type', {}).setdefault('*', {})
for c in range(16):
    s = struct_parse(st.Elf_Sym, io.BytesIO(struct.pack('<IBBHQQ', 0, (c << 4) | c, 0, 0, 0, 0)))
    if confirmed(s['st_info']['bind'], c): kb[str(c)] = s['st_info']['bind']
    if confirmed(s['st_info']['type'], c): kt[str(c)] = s['st_info']['type']
kv = out.setdefault('st_visibility', {}).setdefault('*', {})
for c in range(8):
    s = struct_parse(st.Elf_Sym, io.BytesIO(struct.pack('<IBBHQQ', 0, 0, c, 0, 0, 0)))
    if confirmed(s['st_other']['visibility'], c): kv[str(c)] = s['st_other']['visibility']
ks = out.setdefault('st_shndx', {}).setdefault('*', {})
for c in candidates(('SHN_',), [ee.ENUM_ST_SHNDX]):
    if c < 65536:
        s = struct_parse(st.Elf_Sym, io.BytesIO(struct.pack('<IBBHQQ', 0, 0, 0, c, 0, 0)))
        if confirmed(s['st_shndx'], c): ks[str(c)] = s['st_shndx']
kc = out.setdefault('ch_type', {}).setdefault('*', {})
for c in candidates(('ELFCOMPRESS_',), [ee.ENUM_ELFCOMPRESS_TYPE]):
    n = struct_parse(st.Elf_Chdr, io.BytesIO(struct.pack('<IIQQ', c, 0, 0, 0)))['ch_type']
    if confirmed(n, c): kc[str(c)] = n
for etype, key in ((3, 'n_type'), (4, 'n_type_core')):
    stn = structs(etype=etype)
    kn = out.setdefault(key, {}).setdefault('*', {})
    for c in candidates(('NT_',), [ee.ENUM_NOTE_N_TYPE, ee.ENUM_CORE_NOTE_N_TYPE]):
        n = struct_parse(stn.Elf_Nhdr, io.BytesIO(struct.pack('<III', 0, 0, c)))['n_type']
        if confirmed(n, c): kn[str(c)] = n
# DWARF-level tables (the library uses them through construct Enum with these dicts)
for kind, table, pre in (('DW_TAG', de.ENUM_DW_TAG, 'DW_TAG_'), ('DW_AT', de.ENUM_DW_AT, 'DW_AT_'), ('DW_FORM', de.ENUM_DW_FORM, 'DW_FORM_'),
                         ('DW_LNCT', de.ENUM_DW_LNCT, 'DW_LNCT_'), ('DW_UT', de.ENUM_DW_UT, 'DW_UT_'),
                         ('DW_LLE', de.ENUM_DW_LLE, 'DW_LLE_'), ('DW_RLE', de.ENUM_DW_RLE, 'DW_RLE_')):
    k = out.setdefault(kind, {}).setdefault('*', {})
    rev = {}
    for n, v in table.items():
        if isinstance(v, int):
            rev.setdefault(v, n)        # construct's Enum decodes with the first-listed? use the library to be sure below
    from elftools.construct import Enum, ULInt32
    en = Enum(ULInt32(''), **table)
    for c in sorted(set(v for v in table.values() if isinstance(v, int))):
        n = en.parse(struct.pack('<I', c))
        if confirmed(n, c): k[str(c)] = n
json.dump(out, open(os.path.join(ROOT, 'registry', 'pinned_named_codes.json'), 'w'), indent=0, sort_keys=True)
print({k: sum(len(x) for x in v.values()) for k, v in out.items()})
