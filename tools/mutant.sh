#!/bin/bash
# tools/mutant.sh <patch> <ID>[,<ID>...] [--suite] [--tier T]
# Applies <patch> to a scratch copy of /repo under /dev/shm, optionally runs the pinned
# suite there (must stay green), runs the named checks against the copy, reports, cleans up.
set -u
patch=$(readlink -f "$1"); ids=$2; shift 2
suite=0; tier=quick
while [ $# -gt 0 ]; do case "$1" in --suite) suite=1;; --tier) tier=$2; shift;; esac; shift; done
S=/dev/shm/mut.$$; mkdir -p $S
trap 'rm -rf $S' EXIT
rsync -a --exclude .git --exclude '*.pyc' --exclude __pycache__ /repo/ $S/repo/
if ! (cd $S/repo && patch -p1 -s < "$patch"); then echo "PATCH-FAILED $patch"; exit 3; fi
res=""
if [ $suite = 1 ]; then
  out=$(cd $S/repo && timeout 150 /venv/bin/python -m pytest -q -p no:cacheprovider --timeout=900 --continue-on-collection-errors 2>&1 | tail -3)
  if echo "$out" | grep -q "111 passed"; then res="suite=green"; else res="suite=RED($(echo "$out" | tail -1))"; fi
fi
for id in ${ids//,/ }; do
  out=$(cd /verif && VERIF_REPO=$S/repo VERIF_EVIDENCE_DIR=$S/ev VERIF_REPLAY_DIR=$S/rp ./check $id --tier $tier 2>&1); rc=$?
  nv=$(echo "$out" | grep -c '^VIOLATION')
  first=$(echo "$out" | grep -B1 '^VIOLATION' | head -1 | cut -c1-220)
  echo "$(basename $patch) $id rc=$rc violations=$nv $res :: $first"
done
