#!/venv/bin/python
"""Rewrites seeded/README.md from the meta.json files (tools/seeded_all.sh does the same after re-confirming every change)."""
import json, os
os.chdir(os.path.join(os.path.dirname(os.path.abspath(__file__)), '..'))
rows = ['# Independently seeded property-breaking changes', '',
        'Each change was written by a fresh sub-agent that saw only the text of one property (or a few) and a scratch git worktree of /repo - nothing from /verif.',
        '`tools/seeded.sh` confirmed each one in scratch copies outside /repo and /verif: pinned suite on the patched copy = the same 111 passed as the unchanged tree, `demo.py` exits 0 on the',
        'pristine copy and non-zero on the patched one; then the quick checks ran against the patched copy (`VERIF_REPO=<copy>`). `tools/seeded_all.sh` repeats all of that against the current checks.', '',
        '| id | change | needs | detected by (quick tier) | history |', '|---|---|---|---|---|']
n = miss = 0
for d in sorted(os.listdir('seeded')):
    p = 'seeded/%s/meta.json' % d
    if not os.path.exists(p):
        continue
    m = json.load(open(p))
    n += 1
    miss += not m['detected_by']
    rows.append('| %s | %s | %s | %s | %s |' % (d, m['summary'].replace('|', '/'), m['needs_to_manifest'].replace('|', '/'), ', '.join(m['detected_by']) or '**NONE**', m.get('history', '')))
rows += ['', '%d changes, %d not detected by any quick check.' % (n, miss)]
open('seeded/README.md', 'w').write('\n'.join(rows) + '\n')
print(n, 'changes;', miss, 'undetected')
